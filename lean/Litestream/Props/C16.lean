import Litestream.Model.Follow
import Litestream.Lemmas.PlanSort
import Litestream.Lemmas.Follow
import Litestream.Lemmas.FollowPlan
import Litestream.Gen.Follow
/-!
C16 — follow-mode restore converges and resumes correctly after being killed.
Property theorems only (helper lemmas: Lemmas/Follow*.lean).
-/
namespace Litestream.C16
open Litestream Litestream.Follow

/-! ## Soundness of a poll -/

/-- **L-catchup as explicit hypothesis** (DESIGN §2): every file of the replica, applied to the
    true state at any TXID `c` it connects to (`min ≤ c+1`, `c < max`), yields the true state at
    its `max`.  This is the semantic contract of `ltx.Compactor` + growth-complete level-0 files
    (property C06, owned by another package); it is assumed here, not proved. -/
def CatchUp (T : List Body) (r : Replica) : Prop :=
  ∀ rf ∈ r, ∀ c, rf.info.min ≤ c + 1 → c < rf.info.max →
    (truth T c).applyBody rf.body = truth T rf.info.max

theorem content_of_mem {r : Replica} {f : FileInfo} (hf : f ∈ infos r) :
    ∃ rf ∈ r, content r f = some rf.body ∧ rf.info.min = f.min ∧ rf.info.max = f.max := by
  unfold infos at hf
  obtain ⟨rf0, hrf0, rfl⟩ := List.mem_map.mp hf
  unfold content
  cases hfind : r.find? (fun rf => rf.info.level == rf0.info.level && rf.info.min == rf0.info.min && rf.info.max == rf0.info.max) with
  | none =>
    have := List.find?_eq_none.mp hfind rf0 hrf0
    simp at this
  | some rf =>
    have hp := List.find?_some hfind
    have hm := List.mem_of_find?_eq_some hfind
    simp at hp
    exact ⟨rf, hm, rfl, hp.1.2, hp.2⟩

/-- Applying a chain of listed files to the true state at `c` gives the true state at the chain's end. -/
theorem applyAll_chain {T : List Body} {r : Replica} (h : CatchUp T r) :
    ∀ (plan : List FileInfo) (c : Nat), chainFrom c plan = true → (∀ x ∈ plan, x ∈ infos r) →
      (truth T c).applyAll (bodies r plan) = truth T (chainEnd c plan) := by
  intro plan
  induction plan with
  | nil => intro c _ _; rfl
  | cons f rest ih =>
    intro c hc hmem
    simp [chainFrom] at hc
    obtain ⟨rf, hrf, hcont, hmin, hmax⟩ := content_of_mem (hmem f (by simp))
    have hstep : (truth T c).applyBody rf.body = truth T rf.info.max :=
      h rf hrf c (by omega) (by omega)
    have hb : bodies r (f :: rest) = rf.body :: bodies r rest := by
      unfold bodies; simp [hcont]
    rw [hb]
    show ((truth T c).applyBody rf.body).applyAll (bodies r rest) = truth T (chainEnd c (f :: rest))
    rw [hstep, hmax]
    exact ih f.max hc.2 (fun x hx => hmem x (List.mem_cons_of_mem _ hx))

/-- `follow_step_sound`: a poll never regresses the sidecar and keeps the follower equal to the
    true state at its sidecar TXID. -/
theorem follow_step_sound {T : List Body} {r : Replica} (h : CatchUp T r) (fol : Fol)
    (hf : fol.db = truth T fol.txid) :
    (poll r fol).txid ≥ fol.txid ∧ (poll r fol).db = truth T (poll r fol).txid := by
  have hp := pollPlan_chain (infos r) fol.txid
  refine ⟨chainEnd_ge _ _ hp.1, ?_⟩
  show fol.db.applyAll (bodies r (pollPlan (infos r) fol.txid)) = truth T (chainEnd fol.txid (pollPlan (infos r) fol.txid))
  rw [hf]
  exact applyAll_chain h _ _ hp.1 hp.2

/-- Non-vacuity: a two-transaction truth, level-0 files and their level-1 compaction satisfy `CatchUp`
    pointwise on the pages that exist (checked by evaluation on the witness). -/
def exT : List Body := [⟨2, [(1, 11), (2, 12)]⟩, ⟨3, [(1, 21), (3, 23)]⟩]
def exR : Replica := [⟨⟨0, 1, 1, 0⟩, exT[0]!⟩, ⟨⟨0, 2, 2, 0⟩, exT[1]!⟩, ⟨⟨1, 1, 2, 0⟩, ⟨3, [(1, 21), (2, 12), (3, 23)]⟩⟩]
example : (poll exR ⟨truth exT 0, 0⟩).txid = 2 ∧
    ((poll exR ⟨truth exT 0, 0⟩).db.size = (truth exT 2).size) ∧
    ([1, 2, 3, 4].map (poll exR ⟨truth exT 0, 0⟩).db.get = [1, 2, 3, 4].map (truth exT 2).get) := by decide

/-! ## Convergence -/

theorem chainEnd_le (q : List FileInfo) (N : Nat) (hq : ∀ x ∈ q, x.max ≤ N) : ∀ c, c ≤ N → chainEnd c q ≤ N := by
  induction q with
  | nil => intro c h; exact h
  | cons f q ih =>
    intro c _
    simp [chainEnd]
    exact ih (fun x hx => hq x (List.mem_cons_of_mem _ hx)) f.max (hq f (by simp))

theorem pollTxid_le_max (fs : List FileInfo) (c : Nat) (hc : c ≤ maxInfoTx fs) : pollTxid fs c ≤ maxInfoTx fs := by
  unfold pollTxid
  exact chainEnd_le _ _ (fun x hx => mem_le_maxInfoTx ((pollPlan_chain fs c).2 x hx)) c hc

/-- `follow_converges` (partial): against a replica that no longer changes, if every poll below the
    newest TXID `N` makes progress, some number of polls reaches exactly `⟨truth N, N⟩`.
    The progress hypothesis is what "bridgeable" provides (a level-0 file at `c+1`, or a level 1–8
    file with `min ≤ c+1 < max+1`, is found because listings are sorted); that implication is NOT
    proved here — the engine checks it on the real code against an independent chain oracle. -/
theorem follow_converges_partial {T : List Body} {r : Replica} (h : CatchUp T r)
    (hprog : ∀ c, c < maxInfoTx (infos r) → c < pollTxid (infos r) c) :
    ∀ (k : Nat) (fol : Fol), fol.db = truth T fol.txid → fol.txid ≤ maxInfoTx (infos r) →
      maxInfoTx (infos r) - fol.txid ≤ k →
      ∃ n, (pollN r n fol).txid = maxInfoTx (infos r) ∧ (pollN r n fol).db = truth T (maxInfoTx (infos r)) := by
  intro k
  induction k with
  | zero =>
    intro fol hf hle hk
    have : fol.txid = maxInfoTx (infos r) := by omega
    exact ⟨0, this, by simp [pollN]; rw [hf, this]⟩
  | succ k ih =>
    intro fol hf hle hk
    by_cases heq : fol.txid = maxInfoTx (infos r)
    · exact ⟨0, heq, by simp [pollN]; rw [hf, heq]⟩
    · have hlt : fol.txid < maxInfoTx (infos r) := by omega
      have hs := follow_step_sound h fol hf
      have hp : fol.txid < (poll r fol).txid := hprog fol.txid hlt
      have hb : (poll r fol).txid ≤ maxInfoTx (infos r) := pollTxid_le_max _ _ hle
      obtain ⟨n, hn⟩ := ih (poll r fol) hs.2 hb (by omega)
      exact ⟨n + 1, hn⟩

/-! ## Kill points -/

theorem run_append (fol : Fol) (a b : List Step) : fol.run (a ++ b) = (fol.run a).run b := by
  simp [Fol.run, List.foldl_append]

theorem run_writes (ps : List (Nat × Tok)) : ∀ fol : Fol,
    fol.run (ps.map (fun e => Step.write e.1 e.2)) = ⟨fol.db.writePages ps, fol.txid⟩ := by
  induction ps with
  | nil => intro fol; rfl
  | cons e ps ih =>
    intro fol
    simp only [List.map_cons, Fol.run, List.foldl_cons]
    have := ih (fol.step (Step.write e.1 e.2))
    simp only [Fol.run] at this
    rw [this]; rfl

theorem run_bodySteps (fol : Fol) (b : Body) : fol.run (bodySteps b) = ⟨fol.db.applyBody b, fol.txid⟩ := by
  unfold bodySteps
  rw [run_append, run_writes]
  unfold Db.applyBody
  by_cases hc : b.commit > 0
  · simp [hc, Fol.run, Fol.step]
  · simp [hc, Fol.run]

theorem run_bodies (bs : List Body) : ∀ fol : Fol,
    fol.run (bs.flatMap bodySteps) = ⟨fol.db.applyAll bs, fol.txid⟩ := by
  induction bs with
  | nil => intro fol; rfl
  | cons b bs ih =>
    intro fol
    simp only [List.flatMap_cons]
    rw [run_append, run_bodySteps, ih]
    rfl

/-- Executing all effects of a poll in order is the poll. -/
theorem run_pollSteps (r : Replica) (fol : Fol) : fol.run (pollSteps r fol) = poll r fol := by
  unfold pollSteps poll
  simp only
  rw [run_append, run_bodies]
  have hge := chainEnd_ge _ _ (pollPlan_chain (infos r) fol.txid).1
  by_cases ht : chainEnd fol.txid (pollPlan (infos r) fol.txid) > fol.txid
  · simp [ht, Fol.run, Fol.step]
  · have : chainEnd fol.txid (pollPlan (infos r) fol.txid) = fol.txid := by omega
    simp [Fol.run, this]

theorem run_no_sidecar (ss : List Step) (hs : ∀ s ∈ ss, ∀ t, s ≠ Step.sidecar t) : ∀ fol : Fol,
    (fol.run ss).txid = fol.txid := by
  induction ss with
  | nil => intro fol; rfl
  | cons s ss ih =>
    intro fol
    simp only [Fol.run, List.foldl_cons]
    have h1 := ih (fun x hx => hs x (List.mem_cons_of_mem _ hx)) (fol.step s)
    simp only [Fol.run] at h1
    rw [h1]
    cases s with
    | write p t => rfl
    | trunc n => rfl
    | sidecar t => exact absurd rfl (hs _ (by simp) t)

theorem bodySteps_no_sidecar (bs : List Body) : ∀ s ∈ bs.flatMap bodySteps, ∀ t, s ≠ Step.sidecar t := by
  intro s hs t
  obtain ⟨b, _, hb⟩ := List.mem_flatMap.mp hs
  unfold bodySteps at hb
  rcases List.mem_append.mp hb with hb | hb
  · obtain ⟨e, _, rfl⟩ := List.mem_map.mp hb; intro h; cases h
  · by_cases hc : b.commit > 0
    · simp [hc] at hb; rw [hb]; intro h; cases h
    · simp [hc] at hb

/-- `follow_kill_resume` (partial): a kill at ANY point before the last effect of a poll leaves
    the sidecar at the old TXID — so the restarted follower computes the same plan from the same
    listing and writes every page of every (half-)applied file again, followed by the same
    truncates — and a poll that runs to completion equals the atomic poll (`run_pollSteps`).
    Missing for the full statement (`poll r (killAt r fol k) = poll r fol`): the page-level
    congruence lemma (re-applying a chain of files is insensitive to pages that the chain
    rewrites or truncates); the engine covers it with SIGKILL at reader-event granularity. -/
theorem follow_kill_resume_partial (r : Replica) (fol : Fol) (k : Nat)
    (hk : k < (pollSteps r fol).length) :
    (killAt r fol k).txid = fol.txid ∧
      pollPlan (infos r) (killAt r fol k).txid = pollPlan (infos r) fol.txid := by
  have h1 : (killAt r fol k).txid = fol.txid := by
    unfold killAt
    apply run_no_sidecar
    intro s hs t
    unfold pollSteps at hs hk
    simp only at hs hk
    by_cases ht : chainEnd fol.txid (pollPlan (infos r) fol.txid) > fol.txid
    · simp only [ht, if_true] at hs hk
      have hlen : k ≤ ((bodies r (pollPlan (infos r) fol.txid)).flatMap bodySteps).length := by
        rw [List.length_append] at hk
        simp only [List.length_singleton] at hk
        omega
      rw [List.take_append_of_le_length hlen] at hs
      exact bodySteps_no_sidecar _ s (List.mem_of_mem_take hs) t
    · simp only [ht, if_false, List.append_nil] at hs
      exact bodySteps_no_sidecar _ s (List.mem_of_mem_take hs) t
  exact ⟨h1, by rw [h1]⟩

/-! ## Resume validation (finding F5) -/

/-- A chain of files of levels 0..8 leads from `c` to the newest TXID (what `applyNewLTXFiles`
    needs in order to catch up). Executable: fuel = number of files. -/
def bridgeFrom (fs : List FileInfo) : Nat → Nat → Nat
  | 0, c => c
  | fuel+1, c =>
    let c' := fs.foldl (fun m f => if f.level < snapshotLevel ∧ f.min ≤ c + 1 ∧ m < f.max then f.max else m) c
    if c' = c then c else bridgeFrom fs fuel c'

def Bridgeable (fs : List FileInfo) (c : Nat) : Prop := bridgeFrom fs fs.length c = maxInfoTx fs

instance (fs c) : Decidable (Bridgeable fs c) := by unfold Bridgeable; infer_instance

/-- Full-strength statement (for the validation variant `b`): a sidecar TXID that is not beyond
    the replica, not pruned (every snapshot starts at TXID 1, `WF`), and from which the newest TXID
    is bridgeable, is accepted by `Restore`'s crash-recovery validation. -/
def ResumeAccepts (b : ResumeBound) : Prop :=
  ∀ (fs : List FileInfo) (txid : Nat), 1 ≤ txid → txid ≤ maxInfoTx fs → Bridgeable fs txid →
    (∀ f ∈ fs, f.level ≤ snapshotLevel ∧ (f.level = snapshotLevel → f.min = 1)) →
    resumeCheck b fs txid = .ok ()

/-- Witness of F5: snapshot at TXID 1, level-0 files 1..4, follower applied up to TXID 4. -/
def f5Listing : List FileInfo :=
  [⟨9, 1, 1, 0⟩, ⟨0, 1, 1, 0⟩, ⟨0, 2, 2, 1⟩, ⟨0, 3, 3, 2⟩, ⟨0, 4, 4, 3⟩]

theorem f5_witness_meets_hypotheses :
    1 ≤ 4 ∧ 4 ≤ maxInfoTx f5Listing ∧ Bridgeable f5Listing 4 ∧
      (∀ f ∈ f5Listing, f.level ≤ snapshotLevel ∧ (f.level = snapshotLevel → f.min = 1)) := by decide

theorem f5_witness_rejected : resumeCheck .latestSnapshot f5Listing 4 = .error .aheadOfSnapshot := by decide

/-- `follow_resume_accepts` is FALSE of the code as it stands at the pinned commit
    (F5, replica.go:655: the bound is the newest snapshot). -/
theorem follow_resume_accepts_false : ¬ ResumeAccepts .latestSnapshot := by
  intro h
  have := h f5Listing 4 (by decide) (by decide) (by decide) (by decide)
  exact absurd this (by decide)

/-- What the pinned code does guarantee: the complement of the finding's signature
    (`sidecar > newest snapshot max`) as explicit hypothesis. -/
theorem follow_resume_accepts_partial (fs : List FileInfo) (txid : Nat) (h1 : 1 ≤ txid)
    (hs : ∀ s, (listLevel fs snapshotLevel).getLast? = some s → s.min ≤ txid ∧ txid ≤ s.max) :
    resumeCheck .latestSnapshot fs txid = .ok () := by
  unfold resumeCheck
  have h0 : ¬ txid = 0 := by omega
  simp only [h0, if_false]
  cases hl : (listLevel fs snapshotLevel).getLast? with
  | none => rfl
  | some s =>
    have := hs s hl
    have a : ¬ s.min > txid := by omega
    have b : ¬ txid > s.max := by omega
    simp [a, b]

/-- Non-vacuity of the partial theorem: right after the initial restore (sidecar = snapshot max). -/
example : resumeCheck .latestSnapshot [⟨9, 1, 3, 0⟩, ⟨0, 4, 4, 1⟩] 3 = .ok () := by decide

/-- With the repaired bound (`Gen.resumeBound = .replicaMax`, proposed-fixes/F5.diff) the statement
    holds at full strength. -/
theorem follow_resume_accepts_fixed : ResumeAccepts .replicaMax := by
  intro fs txid h1 hmax _ hwf
  unfold resumeCheck
  have h0 : ¬ txid = 0 := by omega
  simp only [h0, if_false]
  cases hl : (listLevel fs snapshotLevel).getLast? with
  | none => rfl
  | some s =>
    have hsmem : s ∈ listLevel fs snapshotLevel := List.mem_of_getLast? hl
    have ⟨hsfs, hslvl⟩ := mem_listLevel.mp hsmem
    have hmin : s.min = 1 := (hwf s hsfs).2 hslvl
    have a : ¬ s.min > txid := by omega
    simp only [a, if_false]
    have hb : maxInfoTx fs ≤ Nat.max s.max (maxInfoTx (fs.filter (fun f => decide (f.level < snapshotLevel)))) := by
      apply maxInfoTx_le
      intro f hf
      by_cases hlv : f.level < snapshotLevel
      · have hmem : f ∈ fs.filter (fun f => decide (f.level < snapshotLevel)) := by simp [hf, hlv]
        exact Nat.le_trans (mem_le_maxInfoTx hmem) (Nat.le_max_right _ _)
      · have hle := (hwf f hf).1
        have heq : f.level = snapshotLevel := by omega
        have : f.max ≤ s.max := latestSnapshot_max hl hf heq (by rw [(hwf f hf).2 heq, hmin])
        exact Nat.le_trans this (Nat.le_max_left _ _)
    have b : ¬ txid > Nat.max s.max (maxInfoTx (fs.filter (fun f => decide (f.level < snapshotLevel)))) := by omega
    simp [b]

/-- Non-vacuity: the F5 witness is accepted by the repaired validation. -/
example : resumeCheck .replicaMax f5Listing 4 = .ok () := by decide

/-- The statement about the working tree, whichever validation it contains: proved for both
    variants, instantiated at the regenerated `Gen.resumeBound`.  With the pinned commit this is
    the `…_partial` statement (F5 excluded by hypothesis); with the repair it is the full one. -/
def ResumeAcceptsCurrent (b : ResumeBound) : Prop :=
  match b with
  | .replicaMax => ResumeAccepts .replicaMax
  | .latestSnapshot => ∀ (fs : List FileInfo) (txid : Nat), 1 ≤ txid →
      (∀ s, (listLevel fs snapshotLevel).getLast? = some s → s.min ≤ txid ∧ txid ≤ s.max) →
      resumeCheck .latestSnapshot fs txid = .ok ()

theorem follow_resume_accepts_current : ResumeAcceptsCurrent Gen.resumeBound := by
  cases h : Gen.resumeBound with
  | replicaMax => exact follow_resume_accepts_fixed
  | latestSnapshot => exact follow_resume_accepts_partial

/-- Ties of the model's constants to the regenerated facts (translator fact `Follow`). -/
theorem gen_gapLevels_eq : gapLevels = List.range' Gen.gapLevelLo (Gen.gapLevelHi - Gen.gapLevelLo) := by
  first | decide | rfl

theorem gen_snapshot_excluded : Gen.gapLevelHi = snapshotLevel := by first | decide | rfl

/-- `follow` writes the sidecar after `applyNewLTXFiles` (model: `pollSteps` ends with the sidecar). -/
theorem gen_sidecar_after_apply : Gen.followCalls = ["applyNewLTXFiles", "WriteTXIDFile"] := by
  first | decide | rfl

/-- `applyLTXFile`: pages are written before the truncate, with a sync in between and at the end
    (model: `bodySteps` = writes then `trunc`). -/
theorem gen_apply_order :
    Gen.applyCalls = ["OpenLTXFile", "LockFileExclusive", "DecodePage", "WriteAt", "Sync", "Truncate", "Sync"] := by
  first | decide | rfl

/-- `follow` decodes the page size of every legal SQLite page size correctly, 65536 included. -/
theorem decodePageSize_legal :
    ∀ ps ∈ [512, 1024, 2048, 4096, 8192, 16384, 32768, 65536],
      decodePageSize (encodePageSize ps).1 (encodePageSize ps).2 = ps := by decide

/-- (T) tie: the decode expression and its 64 KiB special case regenerated from `follow`
    (replica.go) are the model's. -/
theorem gen_follow_page_size : ∀ b0 b1, Gen.followPageSize b0 b1 = decodePageSize b0 b1 := by
  intro b0 b1
  first | rfl | (simp [Gen.followPageSize, decodePageSize])

end Litestream.C16
