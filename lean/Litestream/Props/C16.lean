import Litestream.Model.Follow
import Litestream.Lemmas.PlanSort
/-!
C16 — follow-mode restore converges and resumes correctly after being killed.
Property theorems only (helper lemmas: Lemmas/Follow*.lean).
-/
namespace Litestream.C16
open Litestream Litestream.Follow

/-! ## Resume validation (finding F5) -/

/-- Highest TXID named by any listed file. -/
def maxInfoTx (fs : List FileInfo) : Nat := fs.foldl (fun m f => if f.max > m then f.max else m) 0

/-- A chain of files of levels 0..8 leads from `c` to the newest TXID (what `applyNewLTXFiles`
    needs in order to catch up). Executable: fuel = number of files. -/
def bridgeFrom (fs : List FileInfo) : Nat → Nat → Nat
  | 0, c => c
  | fuel+1, c =>
    let c' := fs.foldl (fun m f => if f.level < snapshotLevel ∧ f.min ≤ c + 1 ∧ m < f.max then f.max else m) c
    if c' = c then c else bridgeFrom fs fuel c'

def Bridgeable (fs : List FileInfo) (c : Nat) : Prop := bridgeFrom fs fs.length c = maxInfoTx fs

instance (fs c) : Decidable (Bridgeable fs c) := by unfold Bridgeable; infer_instance

/-- Full-strength statement: a sidecar TXID that is not beyond the replica and from which the
    newest TXID is bridgeable is accepted by `Restore`'s crash-recovery validation. -/
def ResumeAccepts : Prop :=
  ∀ (fs : List FileInfo) (txid : Nat), 1 ≤ txid → txid ≤ maxInfoTx fs → Bridgeable fs txid →
    resumeCheck fs txid = .ok ()

/-- Witness of F5: snapshot at TXID 1, level-0 files 1..4, follower applied up to TXID 4. -/
def f5Listing : List FileInfo :=
  [⟨9, 1, 1, 0⟩, ⟨0, 1, 1, 0⟩, ⟨0, 2, 2, 1⟩, ⟨0, 3, 3, 2⟩, ⟨0, 4, 4, 3⟩]

theorem f5_witness_meets_hypotheses :
    1 ≤ 4 ∧ 4 ≤ maxInfoTx f5Listing ∧ Bridgeable f5Listing 4 := by decide

theorem f5_witness_rejected : resumeCheck f5Listing 4 = .error .aheadOfSnapshot := by decide

/-- `follow_resume_accepts` is FALSE of the code as it stands (F5, replica.go:655). -/
theorem follow_resume_accepts_false : ¬ ResumeAccepts := by
  intro h
  have := h f5Listing 4 (by decide) (by decide) (by decide)
  exact absurd this (by decide)

/-- What the code does guarantee: the complement of the finding's signature
    (`sidecar > newest snapshot max`) as explicit hypothesis. -/
theorem follow_resume_accepts_partial (fs : List FileInfo) (txid : Nat) (h1 : 1 ≤ txid)
    (hs : ∀ s, (listLevel fs snapshotLevel).getLast? = some s → s.min ≤ txid ∧ txid ≤ s.max) :
    resumeCheck fs txid = .ok () := by
  unfold resumeCheck
  have h0 : ¬ txid = 0 := by omega
  simp only [h0, if_false]
  cases hl : (listLevel fs snapshotLevel).getLast? with
  | none => rfl
  | some s =>
    have := hs s hl
    have a : ¬ s.min > txid := by omega
    have b : ¬ txid > s.max := by omega
    simp [a, b]

/-- Non-vacuity of the partial theorem: right after the initial restore (sidecar = snapshot max). -/
example : resumeCheck [⟨9, 1, 3, 0⟩, ⟨0, 4, 4, 1⟩] 3 = .ok () := by decide

/-- The rejections are exactly the three coded ones; `aheadOfSnapshot` happens iff the sidecar is
    beyond the newest snapshot (this pins the signature of the known finding). -/
theorem resume_ahead_iff (fs : List FileInfo) (txid : Nat) :
    resumeCheck fs txid = .error .aheadOfSnapshot ↔
      txid ≠ 0 ∧ ∃ s, (listLevel fs snapshotLevel).getLast? = some s ∧ s.min ≤ txid ∧ s.max < txid := by
  unfold resumeCheck
  by_cases h0 : txid = 0
  · simp [h0]
  · simp only [h0, if_false]
    cases hl : (listLevel fs snapshotLevel).getLast? with
    | none => simp
    | some s =>
      by_cases a : s.min > txid
      · simp [a]; try omega
      · by_cases b : txid > s.max
        · simp [a, b]; try omega
        · simp [a, b]; try omega

end Litestream.C16
