import Litestream.Lemmas.Retention
import Litestream.Model.Timestamps
/-!
# C15 — Timestamp restore never returns data from after the requested time

Theorems about `planFiles r ⟨0, some T⟩` (C08's planner model with the timestamp
filter `CreatedAt.Before(T)` on the snapshot and on every level) and a ledger
`t : Nat → Nat` giving the replication time of every TXID.  All statements are
corollaries of C08's soundness / completeness / maximality plus the invariant

  `TsWF t r` : every file is at least as new as every TXID it contains.

`tswf_step` shows the invariant is preserved by sync, compaction (output stamped
like its newest input), snapshot (stamped with the wall clock) and every
retention operation, under `ClockMono` (replication times never decrease).
-/
namespace Litestream
namespace C15

/-- A file is never older than what it contains. -/
def TsWF (t : Nat → Nat) (r : List FileInfo) : Prop :=
  ∀ f ∈ r, ∀ n, f.min ≤ n → n ≤ f.max → t n ≤ f.created

/-- Successive replication times never decrease. -/
def ClockMono (t : Nat → Nat) : Prop := ∀ m n, m ≤ n → t m ≤ t n

/-- The plan for timestamp `T`. -/
def atTime (T : Nat) : Target := ⟨0, some T⟩

theorem chain_covers : ∀ (q : List FileInfo) (c n : Nat), chainFrom c q = true → c < n → n ≤ chainEnd c q →
    ∃ f ∈ q, f.min ≤ n ∧ n ≤ f.max := by
  intro q
  induction q with
  | nil => intro c n _ h1 h2; simp [chainEnd] at h2; omega
  | cons g gs ih =>
    intro c n h h1 h2
    simp [chainFrom] at h
    simp [chainEnd] at h2
    by_cases hn : n ≤ g.max
    · exact ⟨g, by simp, by omega, hn⟩
    · obtain ⟨f, hf, hh⟩ := ih g.max n h.2 (by omega) h2
      exact ⟨f, List.mem_cons_of_mem _ hf, hh⟩

theorem elig_atTime {T f} : elig (atTime T) f = true ↔ f.created < T := by simp [elig, atTime]

/-- **Never the future.** A plan for timestamp `T` contains only TXIDs replicated strictly before `T`. -/
theorem ts_never_future {t r T P} (hwf : FilesWF r) (hts : TsWF t r) (h : planFiles r (atTime T) = .ok P) :
    ∀ n, 1 ≤ n → n ≤ chainEnd 0 P → t n < T := by
  intro n h1 h2
  obtain ⟨hne, hch, _, hfiles, _, hcr⟩ := C08.planFiles_sound hwf h
  obtain ⟨f, hf, hmin, hmax⟩ := chain_covers P 0 n hch (by omega) h2
  have := hcr T rfl f hf
  have := hts f (hfiles f hf).1 n hmin hmax
  omega

/-- **No selected file reaches into the future.** Under the invariant, the planner's timestamp
    filter never selects a file that contains a transaction stamped at or after `T`. -/
theorem ts_no_future_file {t r T P} (hwf : FilesWF r) (hts : TsWF t r) (h : planFiles r (atTime T) = .ok P) :
    ∀ f ∈ P, ∀ n, f.min ≤ n → n ≤ f.max → t n < T := by
  intro f hf n hmin hmax
  obtain ⟨_, _, _, hfiles, _, hcr⟩ := C08.planFiles_sound hwf h
  have := hcr T rfl f hf
  have := hts f (hfiles f hf).1 n hmin hmax
  omega

/-- Witness replica: TXID 2 replicated at 30, but its snapshot `1..2` stamped 20 (e.g. with a
    time sampled before the snapshot waited for the sync that produced TXID 2). -/
def exBadT (n : Nat) : Nat := if n = 2 then 30 else 10

def exBad : List FileInfo := [⟨0, 1, 1, 10⟩, ⟨0, 2, 2, 30⟩, ⟨9, 1, 2, 20⟩]

/-- **The invariant is necessary.** On a well-formed replica that violates `TsWF`, the planner
    does select, for `T = 25`, a file containing TXID 2 which was replicated at 30. -/
theorem ts_future_without_invariant :
    FilesWF exBad ∧ ¬ TsWF exBadT exBad ∧ planFiles exBad (atTime 25) = .ok [⟨9, 1, 2, 20⟩] ∧
    (2 ≤ chainEnd 0 [(⟨9, 1, 2, 20⟩ : FileInfo)] ∧ 25 ≤ exBadT 2) := by
  refine ⟨?_, ?_, by decide, by decide⟩
  · intro f hf
    simp [exBad] at hf
    rcases hf with h | h | h <;> subst h <;> simp [snapshotLevel]
  · intro h
    have := h ⟨9, 1, 2, 20⟩ (by simp [exBad]) 2 (by decide) (by decide)
    simp [exBadT] at this

theorem validChain_mono {r T₁ T₂ Q} (hT : T₁ ≤ T₂) (h : C08.ValidChain (listLevel r) (atTime T₁) Q) :
    C08.ValidChain (listLevel r) (atTime T₂) Q :=
  ⟨h.nonempty, h.chain, fun f hf => ⟨(h.files f hf).1, by
      have := elig_atTime.mp (h.files f hf).2; exact elig_atTime.mpr (by omega)⟩, fun h0 => absurd rfl h0⟩

theorem complete_atTime {r T Q} (hwf : FilesWF r) (hQ : C08.ValidChain (listLevel r) (atTime T) Q) :
    ∃ P, planFiles r (atTime T) = .ok P ∧ chainEnd 0 Q ≤ chainEnd 0 P := by
  rcases C08.planFiles_complete hwf (by simp [atTime]) ⟨Q, hQ⟩ with ⟨P, hP⟩ | ⟨_, h2, _⟩
  · exact ⟨P, hP, C08.planFiles_reaches_max hwf hP hQ⟩
  · simp [atTime] at h2

/-- **Monotone in `T`.** A later timestamp never fails where an earlier one succeeded
    and never yields an earlier state. -/
theorem ts_monotone {r T₁ T₂ P₁} (hwf : FilesWF r) (hT : T₁ ≤ T₂) (h : planFiles r (atTime T₁) = .ok P₁) :
    ∃ P₂, planFiles r (atTime T₂) = .ok P₂ ∧ chainEnd 0 P₁ ≤ chainEnd 0 P₂ :=
  complete_atTime hwf (validChain_mono hT (C08.plan_sound (listLevel_wf hwf) h).1)

/-- Exactness from any eligible chain: if some chain of files older than `T` reaches `k`
    and every TXID beyond `k` was replicated at or after `T`, the plan ends exactly at `k`. -/
theorem ts_exact_of_chain {t r T k Q} (hwf : FilesWF r) (hts : TsWF t r)
    (hQ : C08.ValidChain (listLevel r) (atTime T) Q) (hk : chainEnd 0 Q = k)
    (hafter : ∀ n, k < n → T ≤ t n) :
    ∃ P, planFiles r (atTime T) = .ok P ∧ chainEnd 0 P = k := by
  obtain ⟨P, hP, hle⟩ := complete_atTime hwf hQ
  refine ⟨P, hP, ?_⟩
  by_cases hgt : k < chainEnd 0 P
  · have h1 := ts_never_future hwf hts hP (chainEnd 0 P) (by omega) (Nat.le_refl _)
    have h2 := hafter (chainEnd 0 P) hgt
    omega
  · omega

/-- All level-0 files `1..k` present, each stamped with its TXID's replication time. -/
def L0Present (t : Nat → Nat) (r : List FileInfo) (k : Nat) : Prop :=
  ∀ n, 1 ≤ n → n ≤ k → (⟨0, n, n, t n⟩ : FileInfo) ∈ r

theorem l0_chain {t r T} (hmono : ClockMono t) : ∀ k, L0Present t r k → (k = 0 ∨ t k < T) →
    ∃ Q, chainFrom 0 Q = true ∧ chainEnd 0 Q = k ∧ (k ≠ 0 → Q ≠ []) ∧
      ∀ f ∈ Q, f ∈ r ∧ f.level ≤ snapshotLevel ∧ f.created < T := by
  intro k
  induction k with
  | zero => intro _ _; exact ⟨[], by simp [chainFrom], by simp [chainEnd], by simp, by intro f hf; simp at hf⟩
  | succ k ih =>
    intro hp hk
    have hk' : t (k + 1) < T := by omega
    obtain ⟨Q, h1, h2, _, h4⟩ := ih (fun n a b => hp n a (by omega))
      (by by_cases h0 : k = 0
          · exact Or.inl h0
          · right; have := hmono k (k + 1) (by omega); omega)
    have := chainFrom_append Q 0 ⟨0, k + 1, k + 1, t (k + 1)⟩ h1 (by simp [h2]) (by simp [h2])
    refine ⟨Q ++ [⟨0, k + 1, k + 1, t (k + 1)⟩], this.1, by simpa using this.2, by simp, ?_⟩
    intro f hf
    simp at hf
    rcases hf with hf | hf
    · exact h4 f hf
    · subst hf; exact ⟨hp (k + 1) (by omega) (Nat.le_refl _), by simp [snapshotLevel], hk'⟩

/-- **Exact with L0.** With all level-0 files present the result is precisely the last
    TXID replicated before `T`. -/
theorem ts_exact_with_l0 {t r T k} (hwf : FilesWF r) (hts : TsWF t r) (hmono : ClockMono t)
    (hk1 : 1 ≤ k) (hl0 : L0Present t r k) (hbefore : t k < T) (hafter : ∀ n, k < n → T ≤ t n) :
    ∃ P, planFiles r (atTime T) = .ok P ∧ chainEnd 0 P = k := by
  obtain ⟨Q, h1, h2, h3, h4⟩ := l0_chain (T := T) hmono k hl0 (Or.inr hbefore)
  apply ts_exact_of_chain hwf hts (Q := Q) ?_ h2 hafter
  exact ⟨h3 (by omega), h1,
    fun f hf => ⟨C08.inLevels_listLevel.mpr ⟨(h4 f hf).1, (h4 f hf).2.1⟩, elig_atTime.mpr (h4 f hf).2.2⟩,
    fun h0 => absurd rfl h0⟩

/-- **Before the first backup.** A timestamp at or before the first TXID's replication
    time never yields a plan. -/
theorem ts_before_first_fails {t r T} (hwf : FilesWF r) (hts : TsWF t r) (hT : T ≤ t 1) :
    ∀ P, planFiles r (atTime T) ≠ .ok P := by
  intro P h
  obtain ⟨hne, hch, _⟩ := C08.planFiles_sound hwf h
  have hpos := chainEnd_pos_of_ne_nil P 0 hne hch
  have := ts_never_future hwf hts h 1 (Nat.le_refl _) (by omega)
  omega

/-- **The invariant is preserved** by sync, compaction (stamped like its newest input),
    snapshot (stamped with a wall clock not behind the position's replication time). -/
theorem tswf_step {t r} (hmono : ClockMono t) (hts : TsWF t r) (op : GrowOp)
    (hside : match op with
      | .sync _ => True
      | .compact _ _ last => last ∈ r ∧ last.min ≤ last.max
      | .snapshot n now => t n ≤ now) :
    TsWF t (op.apply t r) := by
  intro f hf n hmin hmax
  simp [GrowOp.apply] at hf
  rcases hf with hf | hf
  · subst hf
    cases op with
    | sync m => simp [GrowOp.file] at hmin hmax ⊢; have : n = m := by omega
                subst this; exact Nat.le_refl _
    | compact l a last =>
      simp [GrowOp.file] at hmin hmax ⊢
      have h1 := hmono n last.max hmax
      have h2 := hts last hside.1 last.max hside.2 (Nat.le_refl _)
      omega
    | snapshot m now =>
      simp [GrowOp.file] at hmin hmax ⊢
      have h1 := hmono n m hmax
      have h2 : t m ≤ now := hside
      omega
  · exact hts f hf n hmin hmax

/-- Deleting files (any retention operation) keeps the invariant. -/
theorem tswf_sub {t r r'} (hts : TsWF t r) (hsub : ∀ f ∈ r', f ∈ r) : TsWF t r' :=
  fun f hf => hts f (hsub f hf)

/-- Were a compacted file stamped like its *first* input the invariant would break. -/
example : ¬ TsWF (fun n => 10 * n) [⟨1, 1, 3, 10⟩] := by
  intro h
  have := h ⟨1, 1, 3, 10⟩ (by simp) 3 (by decide) (by decide)
  simp at this

/-- The executable check used on real files implies `TsWF` for the ledger's function. -/
theorem tsWFB_sound {led : Ledger} {r : List FileInfo} (h : tsWFB led r = true) : TsWF (tOf led) r := by
  intro f hf n hmin hmax
  have h1 := List.all_eq_true.mp h f hf
  have h2 := List.all_eq_true.mp h1 (n - f.min) (by simp; omega)
  simp at h2
  have : f.min + (n - f.min) = n := by omega
  rw [this] at h2
  exact h2

/-! ### Non-vacuity -/

def exT (n : Nat) : Nat := 10 * n

def exR : List FileInfo :=
  [⟨9, 1, 2, 25⟩, ⟨0, 1, 1, 10⟩, ⟨0, 2, 2, 20⟩, ⟨0, 3, 3, 30⟩, ⟨0, 4, 4, 40⟩, ⟨1, 1, 3, 30⟩]

example : tsWFB [(1, 10), (2, 20), (3, 30), (4, 40)] exR = true := by decide
example : planFiles exR (atTime 31) = .ok [⟨9, 1, 2, 25⟩, ⟨1, 1, 3, 30⟩] := by decide
example : planFiles exR (atTime 30) = .ok [⟨9, 1, 2, 25⟩] := by decide
example : planFiles exR (atTime 25) = .ok [⟨0, 1, 1, 10⟩, ⟨0, 2, 2, 20⟩] := by decide
example : planFiles exR (atTime 10) = .error .txNotAvailable := by decide
example : lastBefore [(1, 10), (2, 20), (3, 30), (4, 40)] 31 4 = 3 := by decide

end C15
end Litestream
