import Litestream.Model.Timestamps
import Litestream.Driver.Plan
/-! Driver handlers for timestamp restore (C15): the planner ops of C08 plus the
    `TsWF` check and the ledger's "last TXID before T". -/
namespace Litestream.Driver
open Litestream

def parseLedger? (s : String) : Option Ledger :=
  (splitList s ',').mapM fun e =>
    match natList? e ':' with
    | some [n, t] => some (n, t)
    | _ => none

/-- `tswf LED=<txid>:<ms>,… F=<files>` → `ok 1|0` -/
def handleTsWF (args : List (String × String)) : String :=
  match (arg? args "LED").bind parseLedger?, (arg? args "F").bind parseFiles? with
  | some led, some fs => if tsWFB led fs then "ok 1" else "ok 0"
  | _, _ => "bad-op"

/-- `lastbefore T=<ms> N=<maxTxid> LED=…` → `ok <k>` -/
def handleLastBefore (args : List (String × String)) : String :=
  match natArg? args "T", natArg? args "N", (arg? args "LED").bind parseLedger? with
  | some T, some n, some led => s!"ok {lastBefore led T n}"
  | _, _, _ => "bad-op"

def timestampHandlers : Handlers :=
  [("tswf", handleTsWF), ("lastbefore", handleLastBefore)] ++ planHandlers

end Litestream.Driver
