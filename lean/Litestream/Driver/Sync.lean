import Litestream.Model.SyncStep
import Litestream.Driver.Util
/-! Driver handlers for the page-level sync model (C01, C02). -/
namespace Litestream.Driver
open Litestream Litestream.Sy

def parsePgTok? (s : String) : Option (Nat × Nat) :=
  match s.splitOn "=" with
  | [a, b] => do let x ← a.toNat?; let y ← b.toNat?; pure (x, y)
  | _ => none

/-- `pg=tok,pg=tok@commit` -/
def parseTxn? (s : String) : Option Txn :=
  match s.splitOn "@" with
  | [ws, c] => do
    let writes ← (splitList ws ',').mapM parsePgTok?
    let commit ← c.toNat?
    pure ⟨writes, commit⟩
  | _ => none

def growthLinkB' (lock : Nat) (a b : Ltx) : Bool :=
  (List.range' (a.commit + 1) (b.commit - a.commit)).all (fun p => p == lock || (b.look p).isSome)

def growthFromB' (lock : Nat) : Ltx → List Ltx → Bool
  | _, [] => true
  | a, b :: t => growthLinkB' lock a b && growthFromB' lock b t

/-- `l0 LOCK= PREV=<size before> SEG=<txn>|<txn>…` → the file an incremental sync of that segment writes. -/
def handleL0 (args : List (String × String)) : String :=
  match natArg? args "LOCK", natArg? args "PREV", (arg? args "SEG").bind (fun s => (splitList s '|').mapM parseTxn?) with
  | some lock, some prev, some seg =>
    let fs := txnFiles 2 seg
    let segok := fs.all (fun x => x.wf lock && x.wf 0) && growthFromB' lock ⟨0, 0, prev, 0, []⟩ fs
    match compact lock fs with
    | .ok g => s!"ok commit={g.commit} segok={if segok then 1 else 0} pages=" ++ ",".intercalate (g.pages.map (fun p => s!"{p.1}={p.2}"))
    | .error _ => s!"err segok={if segok then 1 else 0}"
  | _, _, _ => "bad-op"

/-- `snap LOCK= COMMIT= PG=<pgno,…>` → whether that is exactly the page set of a snapshot. -/
def handleSnap (args : List (String × String)) : String :=
  match natArg? args "LOCK", natArg? args "COMMIT", (arg? args "PG").bind (fun s => natList? s ',') with
  | some lock, some commit, some pgs => if pgs = snapshotPgnos lock commit then "ok" else "bad"
  | _, _, _ => "bad-op"

def syncHandlers : Handlers := [("l0", handleL0), ("snap", handleSnap)]

end Litestream.Driver
