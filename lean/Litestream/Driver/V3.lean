import Litestream.Model.V3
import Litestream.Model.V3Name
import Litestream.Driver.Util
/-! Driver handlers for the legacy-restore model (C19).

`v3  T=<ms|0> SN=<gen:index:created,…> SG=<gen:index:offset:size:created,…>`
   -> `ok snap=<gen>:<index> wal=<walindex>[<index>/<offset>+…]|…`  or  `err nosnapshots|missingindex|missingsegment`
`fmt T=<ms|0> SN=… SG=… LA=<created of every LTX file,…> LS=<created of snapshot-level LTX files in listing order,…>`
   -> `v3` | `ltx`
Snapshots and segments are given in listing order (generation ascending, then index, then offset). -/
namespace Litestream.Driver
open Litestream.V3

def parseSnap? (s : String) : Option Snap :=
  match natList? s ':' with
  | some [g, i, c] => some ⟨g, i, c⟩
  | _ => none

def parseSeg? (s : String) : Option Seg :=
  match natList? s ':' with
  | some [g, i, o, z, c] => some ⟨g, i, o, z, c⟩
  | _ => none

def fmtV3Err : Err → String
  | .noSnapshots => "nosnapshots" | .missingIndex => "missingindex" | .missingSegment => "missingsegment"

def fmtGroup (g : Nat × List Seg) : String :=
  s!"{g.1}[" ++ "+".intercalate (g.2.map fun s => s!"{s.index}/{s.offset}") ++ "]"

def v3Inputs? (args : List (String × String)) : Option (Nat × List Snap × List Seg) := do
  let t ← natArg? args "T"
  let sn ← (arg? args "SN").bind fun s => (splitList s ',').mapM parseSnap?
  let sg ← (arg? args "SG").bind fun s => (splitList s ',').mapM parseSeg?
  pure (t, sn, sg)

def handleV3 (args : List (String × String)) : String :=
  match v3Inputs? args with
  | some (t, sn, sg) =>
    match restorePlan sn sg t with
    | .ok (snap, groups) => s!"ok snap={snap.gen}:{snap.index} wal=" ++ "|".intercalate (groups.map fmtGroup)
    | .error e => "err " ++ fmtV3Err e
  | none => "bad-op"

def handleFmt (args : List (String × String)) : String :=
  match v3Inputs? args, (arg? args "LA").bind (natList? · ','), (arg? args "LS").bind (natList? · ',') with
  | some (t, sn, sg), some la, some ls => if shouldUseV3 sn sg la ls t then "v3" else "ltx"
  | _, _, _ => "bad-op"

/-! Names (`Model/V3Name.lean`); file names travel as hex of their bytes (a byte ≥ 128 becomes a
non-hex character, which neither the model nor Go's byte-class regular expressions accept).

`nparse K=snap|seg|gen HEX=<hex>`      -> `ok <index>` | `ok <index>:<offset>` | `none` | `gen 0|1`
`nfmt K=snap I=<n>` / `nfmt K=seg I=<n> O=<n>`  -> the file name
`nlist K=snap|seg N=<hex>,<hex>,…`     -> `<index>,…` | `<index>:<offset>,…`  (`-` when empty) -/

def hexNib? (c : Char) : Option Nat :=
  if '0' ≤ c ∧ c ≤ '9' then some (c.toNat - 48) else if 'a' ≤ c ∧ c ≤ 'f' then some (c.toNat - 87) else none

def unhex? : List Char → Option (List Char)
  | [] => some []
  | [_] => none
  | a :: b :: rest => do
    let x ← hexNib? a
    let y ← hexNib? b
    let r ← unhex? rest
    pure (Char.ofNat (x * 16 + y) :: r)

def nameArg? (s : String) : Option (List Char) := unhex? s.toList

def handleNParse (args : List (String × String)) : String :=
  match arg? args "K", (arg? args "HEX").bind nameArg? with
  | some "snap", some n => match V3Name.parseSnap n with | some i => s!"ok {i}" | none => "none"
  | some "seg", some n => match V3Name.parseSeg n with | some (i, o) => s!"ok {i}:{o}" | none => "none"
  | some "gen", some n => if V3Name.isGenID n then "gen 1" else "gen 0"
  | _, _ => "bad-op"

def handleNFmt (args : List (String × String)) : String :=
  match arg? args "K", natArg? args "I", natArg? args "O" with
  | some "snap", some i, _ => String.ofList (V3Name.fmtSnap i)
  | some "seg", some i, some o => String.ofList (V3Name.fmtSeg i o)
  | _, _, _ => "bad-op"

def dashIfEmpty (s : String) : String := if s.isEmpty then "-" else s

def handleNList (args : List (String × String)) : String :=
  match arg? args "K", (arg? args "N").bind fun s => (splitList s ',').mapM nameArg? with
  | some "snap", some ns => dashIfEmpty (",".intercalate ((V3Name.listSnaps ns).map toString))
  | some "seg", some ns => dashIfEmpty (",".intercalate ((V3Name.listSegs ns).map fun p => s!"{p.1}:{p.2}"))
  | _, _ => "bad-op"

def v3Handlers : Handlers :=
  [("v3", handleV3), ("fmt", handleFmt), ("nparse", handleNParse), ("nfmt", handleNFmt), ("nlist", handleNList)]

end Litestream.Driver
