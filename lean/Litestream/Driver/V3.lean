import Litestream.Model.V3
import Litestream.Driver.Util
/-! Driver handlers for the legacy-restore model (C19).

`v3  T=<ms|0> SN=<gen:index:created,…> SG=<gen:index:offset:size:created,…>`
   -> `ok snap=<gen>:<index> wal=<walindex>[<index>/<offset>+…]|…`  or  `err nosnapshots|missingindex|missingsegment`
`fmt T=<ms|0> SN=… SG=… LA=<created of every LTX file,…> LS=<created of snapshot-level LTX files in listing order,…>`
   -> `v3` | `ltx`
Snapshots and segments are given in listing order (generation ascending, then index, then offset). -/
namespace Litestream.Driver
open Litestream.V3

def parseSnap? (s : String) : Option Snap :=
  match natList? s ':' with
  | some [g, i, c] => some ⟨g, i, c⟩
  | _ => none

def parseSeg? (s : String) : Option Seg :=
  match natList? s ':' with
  | some [g, i, o, z, c] => some ⟨g, i, o, z, c⟩
  | _ => none

def fmtV3Err : Err → String
  | .noSnapshots => "nosnapshots" | .missingIndex => "missingindex" | .missingSegment => "missingsegment"

def fmtGroup (g : Nat × List Seg) : String :=
  s!"{g.1}[" ++ "+".intercalate (g.2.map fun s => s!"{s.index}/{s.offset}") ++ "]"

def v3Inputs? (args : List (String × String)) : Option (Nat × List Snap × List Seg) := do
  let t ← natArg? args "T"
  let sn ← (arg? args "SN").bind fun s => (splitList s ',').mapM parseSnap?
  let sg ← (arg? args "SG").bind fun s => (splitList s ',').mapM parseSeg?
  pure (t, sn, sg)

def handleV3 (args : List (String × String)) : String :=
  match v3Inputs? args with
  | some (t, sn, sg) =>
    match restorePlan sn sg t with
    | .ok (snap, groups) => s!"ok snap={snap.gen}:{snap.index} wal=" ++ "|".intercalate (groups.map fmtGroup)
    | .error e => "err " ++ fmtV3Err e
  | none => "bad-op"

def handleFmt (args : List (String × String)) : String :=
  match v3Inputs? args, (arg? args "LA").bind (natList? · ','), (arg? args "LS").bind (natList? · ',') with
  | some (t, sn, sg), some la, some ls => if shouldUseV3 sn sg la ls t then "v3" else "ltx"
  | _, _, _ => "bad-op"

def v3Handlers : Handlers := [("v3", handleV3), ("fmt", handleFmt)]

end Litestream.Driver
