import Litestream.Model.ReplicaSync
import Litestream.Driver.Util
/-! Driver handlers for the replica upload loop and compaction outcome (C05). -/
namespace Litestream.Driver
open Litestream Litestream.ReplicaSync

/-- fault string: `o` ok, `b` fail-before, `a` fail-after; calls beyond the string succeed -/
def parseAssign? (s : String) : Option Assign :=
  let cs := s.toList
  if cs.all (fun c => c == 'o' || c == 'b' || c == 'a') then
    some (fun k => match cs[k]? with
      | some 'b' => .failBefore
      | some 'a' => .failAfter
      | _ => .ok)
  else none

def fmtRes : Res → String
  | .ok => "ok" | .limited => "limited" | .errList => "errList" | .errNoData => "errNoData"
  | .errLocal => "errLocal" | .errWrite => "errWrite"

def sortNat (l : List Nat) : List Nat := (l.toArray.qsort (· < ·)).toList

def dedup : List Nat → List Nat
  | a :: b :: l => if a == b then dedup (b :: l) else a :: dedup (b :: l)
  | l => l

def parseR? (args : List (String × String)) : Option R := do
  let rem ← (arg? args "REMOTE").bind (fun s => natList? s ',')
  let lo ← natArg? args "LO"
  let pos ← natArg? args "POS"
  let d ← natArg? args "DBPOS"
  let lm ← natArg? args "LMIN"
  pure ⟨rem, lo, pos, d, lm, 0⟩

def fmtR (x : R × Res) : String :=
  let rem := ",".intercalate ((dedup (sortNat x.1.remote)).map toString)
  s!"res={fmtRes x.2} remote={rem} pos={x.1.pos} calls={x.1.k}"

/-- `once MAX=<m> REMOTE=<t,…> LO= POS= DBPOS= LMIN= F=<faults>` → one `syncOnce` -/
def handleOnce (args : List (String × String)) : String :=
  match parseR? args, natArg? args "MAX", (arg? args "F").bind parseAssign? with
  | some r, some m, some φ => fmtR (syncOnce φ m r)
  | _, _, _ => "bad-op"

/-- `sync MAX=… (same)` → `Replica.sync` (loop while limited) -/
def handleSync (args : List (String × String)) : String :=
  match parseR? args, natArg? args "MAX", (arg? args "F").bind parseAssign? with
  | some r, some m, some φ => fmtR (sync φ m (r.dbPos + 2) r)
  | _, _, _ => "bad-op"

/-- `compact NSRC=<n> LOCAL=<0|1> READS=<0|1> F=<faults>` → `res=<ok|none|err> written=<0|1> calls=<n>` -/
def handleCompact (args : List (String × String)) : String :=
  match natArg? args "NSRC", natArg? args "LOCAL", natArg? args "READS", (arg? args "F").bind parseAssign? with
  | some n, some l, some rd, some φ =>
    if l > 1 || rd > 1 then "bad-op" else
    let (res, w, calls) := compactOutcome φ 0 n (l == 1) (rd == 1)
    let rs := match res with | .ok => "ok" | .noCompaction => "none" | .err => "err"
    s!"res={rs} written={if w then 1 else 0} calls={calls}"
  | _, _, _, _ => "bad-op"

/-- `init REMOTE=<t,…> DBPOS=<local pos> F=<faults>` → `res=<ok|errList|errOpen> rebased=<0|1> calls=<n>`
    (`rebased` = the local position was moved to the remote maximum) -/
def handleInit (args : List (String × String)) : String :=
  match (arg? args "REMOTE").bind (fun s => natList? s ','), natArg? args "DBPOS", (arg? args "F").bind parseAssign? with
  | some rem, some d, some φ =>
    let r : R := ⟨rem, 1, 0, d, 1, 0⟩
    let x := initCheck φ r
    let rs := match x.2 with | .ok => "ok" | .errList => "errList" | .errOpen => "errOpen"
    let rb := if x.2 == .ok && x.1.dbPos != d then 1 else 0
    s!"res={rs} rebased={rb} calls={x.1.k}"
  | _, _, _ => "bad-op"

def replicaSyncHandlers : Handlers :=
  [("once", handleOnce), ("sync", handleSync), ("compact", handleCompact), ("init", handleInit)]

end Litestream.Driver
