import Litestream.Model.Follow
import Litestream.Gen.Follow
import Litestream.Driver.Plan
import Litestream.Model.Sidecar
/-! Driver handlers for follow mode (C16). -/
namespace Litestream.Driver
open Litestream Litestream.Follow

/-- `poll AFTER=<txid> F=<lvl>:<min>:<max>:<created>,…` → `ok <newtxid> <lvl:min:max,…>`:
    the files one `applyNewLTXFiles` call applies, in order, and the TXID it returns. -/
def handleFollowPoll (args : List (String × String)) : String :=
  match natArg? args "AFTER", (arg? args "F").bind parseFiles? with
  | some a, some fs =>
    let plan := pollPlan fs a
    s!"ok {chainEnd a plan} " ++ ",".intercalate (plan.map fmtFile)
  | _, _ => "bad-op"

def fmtResume : Except ResumeErr Unit → String
  | .ok _ => "ok"
  | .error .noSidecar => "err nosidecar"
  | .error .behindSnapshot => "err behind"
  | .error .aheadOfSnapshot => "err ahead"

/-- `resume TX=<sidecar txid> F=…` → the verdict of Restore's crash-recovery validation. -/
def handleFollowResume (args : List (String × String)) : String :=
  match natArg? args "TX", (arg? args "F").bind parseFiles? with
  | some t, some fs => fmtResume (resumeCheck Gen.resumeBound fs t)
  | _, _ => "bad-op"

/-- Iterate polls on a fixed listing until the TXID stops moving (at most `fuel` polls). -/
def convergeLoop (fs : List FileInfo) : Nat → Nat → Nat → Nat × Nat
  | 0, cur, n => (cur, n)
  | fuel+1, cur, n =>
    let t := pollTxid fs cur
    if t == cur then (cur, n) else convergeLoop fs fuel t (n+1)

/-- `converge AFTER=<txid> F=…` → `ok <final txid> polls=<n>`. -/
def handleFollowConverge (args : List (String × String)) : String :=
  match natArg? args "AFTER", (arg? args "F").bind parseFiles? with
  | some a, some fs =>
    let r := convergeLoop fs (fs.length + 2) a 0
    s!"ok {r.1} polls={r.2}"
  | _, _ => "bad-op"

/-- `sidecar HEX=<content hex>` / `sidecar ABSENT=1` → `ok <txid>` | `err` (`ReadTXIDFile`);
    `sidecartext T=<txid>` → hex of what `WriteTXIDFile` leaves in the file. -/
def handleSidecar (args : List (String × String)) : String :=
  let fmt := fun (r : Option Nat) => match r with | some t => s!"ok {t}" | none => "err"
  match arg? args "ABSENT", (arg? args "HEX").bind fun s => lnUnhex? s.toList with
  | some _, _ => fmt (Sidecar.readSidecar none)
  | none, some c => fmt (Sidecar.readSidecar (some c))
  | none, none => "bad-op"

def hexOfChars (cs : List Char) : String :=
  String.ofList (cs.flatMap fun c => [V3Name.hexChar (c.toNat / 16), V3Name.hexChar (c.toNat % 16)])

def handleSidecarText (args : List (String × String)) : String :=
  match natArg? args "T" with
  | some t => if t < 2 ^ 64 then hexOfChars (Sidecar.sidecarText t) else "bad-op"
  | none => "bad-op"

def followHandlers : Handlers :=
  [("poll", handleFollowPoll), ("resume", handleFollowResume), ("converge", handleFollowConverge),
   ("sidecar", handleSidecar), ("sidecartext", handleSidecarText)]

end Litestream.Driver
