import Litestream.Model.Ltx
import Litestream.Model.CompactLevel
import Litestream.Model.LockPage
import Litestream.Driver.Plan
/-! Driver handlers for logical LTX files, level compaction (C06) and the lock page (C17). -/
namespace Litestream.Driver
open Litestream

def parsePage? (s : String) : Option (Nat × Nat) :=
  match natList? s '=' with
  | some [p, t] => some (p, t)
  | _ => none

def parsePages? (s : String) : Option (List (Nat × Nat)) := (splitList s ',').mapM parsePage?

/-- `min:max:commit:ts:pg=tok,…` -/
def parseLtx? (s : String) : Option Ltx :=
  match splitOn1 s ':' with
  | [a, b, c, d, pg] => do
    let mn ← a.toNat?
    let mx ← b.toNat?
    let cm ← c.toNat?
    let ts ← d.toNat?
    let pages ← parsePages? pg
    pure ⟨mn, mx, cm, ts, pages⟩
  | _ => none

def parseLtxs? (s : String) : Option (List Ltx) := (splitList s ';').mapM parseLtx?

/-- `size:pg=tok,…` -/
def parseDb? (s : String) : Option Db :=
  match splitOn1 s ':' with
  | [a, pg] => do
    let sz ← a.toNat?
    let pages ← parsePages? pg
    pure ⟨sz, pages⟩
  | _ => none

def fmtPages (ps : List (Nat × Nat)) : String := ",".intercalate (ps.map (fun p => s!"{p.1}={p.2}"))

def fmtLtx (f : Ltx) : String := s!"{f.minTx}:{f.maxTx}:{f.commit}:{f.ts}:{fmtPages f.pages}"

/-- Canonical database text: size and the non-zero pages in ascending order. -/
def fmtDb (d : Db) : String :=
  let keys := sortU (d.pages.map (·.1))
  let ps := keys.filterMap (fun p => if d.page p = 0 then none else some (p, d.page p))
  s!"{d.size}:{fmtPages ps}"

def fmtCompactErr : CompactErr → String
  | .empty => "empty" | .nonContiguous => "noncontiguous" | .lockPage => "lockpage"
  | .snapshotStart => "snapshotstart" | .nonSequential => "nonsequential"

def wfAll (lock : Nat) (fs : List Ltx) : Bool := fs.all (Ltx.wf lock)

/-- `cmpct LOCK=<n> IN=<ltx>;<ltx>…` -/
def handleCmpct (args : List (String × String)) : String :=
  match natArg? args "LOCK", (arg? args "IN").bind parseLtxs? with
  | some lock, some fs =>
    if !wfAll lock fs then "bad-op" else
    match compact lock fs with
    | .ok g => "ok " ++ fmtLtx g
    | .error e => "err " ++ fmtCompactErr e
  | _, _ => "bad-op"

/-- `apply LOCK=<n> D=<db> IN=<ltx>;…` — sequential application. -/
def handleApply (args : List (String × String)) : String :=
  match natArg? args "LOCK", (arg? args "D").bind parseDb?, (arg? args "IN").bind parseLtxs? with
  | some lock, some d, some fs =>
    if !wfAll lock fs then "bad-op" else "ok " ++ fmtDb (applyAll d fs)
  | _, _, _ => "bad-op"

/-- `decode LOCK=<n> IN=<ltx>` — DecodeDatabaseTo. -/
def handleDecode (args : List (String × String)) : String :=
  match natArg? args "LOCK", (arg? args "IN").bind parseLtx? with
  | some lock, some f =>
    match decodeDb lock f with
    | .ok d => "ok " ++ fmtDb d
    | .error .notSnapshot => "err notsnapshot"
    | .error .pages => "err pages"
  | _, _ => "bad-op"

/-- `restore LOCK=<n> IN=<ltx>;…` — what Replica.Restore does with a plan: compact, then decode. -/
def handleRestore (args : List (String × String)) : String :=
  match natArg? args "LOCK", (arg? args "IN").bind parseLtxs? with
  | some lock, some fs =>
    if !wfAll lock fs then "bad-op" else
    match compact lock fs with
    | .error e => "err " ++ fmtCompactErr e
    | .ok g =>
      match decodeDb lock g with
      | .ok d => "ok " ++ fmtDb d
      | .error .notSnapshot => "err notsnapshot"
      | .error .pages => "err pages"
  | _, _ => "bad-op"

def fmtMM (f : FileInfo) : String := s!"{f.min}:{f.max}"

/-- `level DST=<n> F=<lvl:min:max:created,…> C=<cached infos lvl:min:max:created,…>`
    → `ok <min>:<max> hdr=<min>:<max> seek=<n> src=<min:max,…>` (name range, header range of the merged sources) | `err nocompaction`. -/
def handleLevel (args : List (String × String)) : String :=
  match natArg? args "DST", (arg? args "F").bind parseFiles?, (arg? args "C").bind parseFiles? with
  | some dst, some fs, some cs =>
    let st : RState := { files := listLevel fs, cache := fun l => cs.find? (fun c => c.level == l) }
    match compactPick st dst with
    | .ok pk =>
      let h := srcHeader pk.srcs
      s!"ok {pk.min}:{pk.max} hdr={h.1}:{h.2} seek={pk.seek} src=" ++ ",".intercalate (pk.srcs.map fmtMM)
    | .error .noCompaction => "err nocompaction"
  | _, _, _ => "bad-op"

def fmtNats (l : List Nat) : String := ",".intercalate (l.map toString)

/-- Run-length text of an ascending page-number list: `a-b,c,d-e`. -/
def runsAux : Nat → Nat → List Nat → List String
  | a, b, [] => [if a = b then s!"{a}" else s!"{a}-{b}"]
  | a, b, p :: ps => if p = b + 1 then runsAux a p ps else (if a = b then s!"{a}" else s!"{a}-{b}") :: runsAux p p ps

def fmtRuns : List Nat → String
  | [] => ""
  | p :: ps => ",".intercalate (runsAux p p ps)

/-- `lock PS=<n>` → `ok <lockPgno>` (only for valid page sizes). -/
def handleLock (args : List (String × String)) : String :=
  match natArg? args "PS" with
  | some ps => if pageSizes.contains ps then s!"ok {lockPgno ps}" else "err pagesize"
  | none => "bad-op"

/-- `emitdb PS=<n> COMMIT=<n>` → pages writeLTXFromDB emits, run-length encoded. -/
def handleEmitDb (args : List (String × String)) : String :=
  match natArg? args "PS", natArg? args "COMMIT" with
  | some ps, some commit =>
    if !pageSizes.contains ps then "err pagesize" else "ok " ++ fmtRuns (emittedFromDB (lockPgno ps) commit)
  | _, _ => "bad-op"

/-- `emitwal PS=<n> PREV=<n> COMMIT=<n> M=<pgno,…>` → pages writeLTXFromWAL hands to the encoder. -/
def handleEmitWal (args : List (String × String)) : String :=
  match natArg? args "PS", natArg? args "PREV", natArg? args "COMMIT", (arg? args "M").bind (natList? · ',') with
  | some ps, some prev, some commit, some m =>
    if !pageSizes.contains ps then "err pagesize" else
    let out := emittedFromWAL (lockPgno ps) prev commit m
    if out.contains (lockPgno ps) then "err lockpage" else "ok " ++ fmtRuns out
  | _, _, _, _ => "bad-op"

def ltxHandlers : Handlers :=
  [("cmpct", handleCmpct), ("apply", handleApply), ("decode", handleDecode), ("restore", handleRestore),
   ("level", handleLevel), ("lock", handleLock), ("emitdb", handleEmitDb), ("emitwal", handleEmitWal)]

end Litestream.Driver
