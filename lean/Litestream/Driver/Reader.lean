import Litestream.Model.RestoreFlow
import Litestream.Driver.Util
/-! Driver handlers for the resumable reader and the restore output protocol (C10). -/
namespace Litestream.Driver
open Litestream Litestream.Reader Litestream.RestoreFlow

def parseDec? (s : String) : Option Dec :=
  match splitOn1 s ':' with
  | [o, n, e] => do
    let o ← match o with | "o" => some OpenRes.ok | "f" => some OpenRes.fail | "x" => some OpenRes.fatal | _ => none
    let n ← n.toNat?
    let e ← match e with | "n" => some UErr.none | "e" => some UErr.eof | "o" => some UErr.other | _ => none
    pure ⟨o, n, e⟩
  | _ => none

def fmtRErr : Option RErr → String
  | none => "-" | some .eof => "eof" | some .openFatal => "openfatal" | some .maxRetries => "maxretries"
  | some .fuel => "fuel"

/-- every `Read` of the buffer list, continuing after errors (sticky / non-sticky behaviour is visible) -/
def readAll (c : Cfg) : List Nat → St → List (Nat × Option RErr) → St × List (Nat × Option RErr)
  | [], st, acc => (st, acc.reverse)
  | p :: ps, st, acc =>
    let r := read c p st
    readAll c ps r.1 ((r.2.1.length, r.2.2) :: acc)

/-- `reader LEN=<content length> SIZE=<info.Size> RC=<0|1> S=<o|f|x>:<n>:<n|e|o>,… B=<p>,…`
    → `calls=<n>:<err>,… off=<offset> opens=<k> retries=<k>`; content byte `i` is `i`, so the
    delivered bytes are determined by the counts. -/
def handleReader (args : List (String × String)) : String :=
  match natArg? args "LEN", natArg? args "SIZE", natArg? args "RC",
        (arg? args "S").bind (fun s => (splitList s ',').mapM parseDec?),
        (arg? args "B").bind (fun s => natList? s ',') with
  | some len, some size, some rc, some sched, some bufs =>
    if rc > 1 then "bad-op" else
    let c : Cfg := ⟨List.range len, size, maxRetriesConst⟩
    let (st, calls) := readAll c bufs (St.init sched (rc == 1)) []
    let cs := ",".intercalate (calls.map fun (n, e) => s!"{n}:{fmtRErr e}")
    s!"calls={cs} off={st.offset} opens={st.opens} retries={st.retryN}"
  | _, _, _, _, _ => "bad-op"

def parseStep? : String → Option Step
  | "statOutput" => some .statOutput | "calcPlan" => some .calcPlan | "sizeCheck" => some .sizeCheck
  | "mkdirParent" => some .mkdirParent | "createTmp" => some .createTmp | "decode" => some .decode
  | "fsync" => some .fsync | "close" => some .close | "rename" => some .rename | "fsyncDir" => some .fsyncDir
  | "integrity" => some .integrity | "rmSidecars" => some .rmSidecars | _ => none

def fmtStep : Step → String
  | .statOutput => "statOutput" | .calcPlan => "calcPlan" | .sizeCheck => "sizeCheck" | .mkdirParent => "mkdirParent"
  | .deferRmTmp => "deferRmTmp" | .createTmp => "createTmp" | .decode => "decode" | .fsync => "fsync"
  | .close => "close" | .rmSidecars => "rmSidecars" | .rename => "rename" | .fsyncDir => "fsyncDir" | .integrity => "integrity"

def fmtFileSt : FileSt Unit → String
  | .absent => "absent" | .pre => "pre" | .partialW => "partial" | .complete _ => "complete"

def bool? (args : List (String × String)) (k : String) : Option Bool :=
  match natArg? args k with
  | some 0 => some false | some 1 => some true | _ => none

/-- `restore PRE= TMPPRE= FAIL=<step|-> FAULTS=<k> CORRUPT=<0|1> SIZES= INTEG= IOK= CANCEL=`
    → `res=<ok|exists|step> out= tmp= wal= shm=`.  `FAULTS` = read faults injected into one plan file
    (each costs one retry: absorbed iff `≤ maxRetriesConst`), `CORRUPT` = a plan file fails verification. -/
def handleRestore (args : List (String × String)) : String :=
  match bool? args "PRE", bool? args "TMPPRE", arg? args "FAIL", natArg? args "FAULTS", bool? args "CORRUPT",
        bool? args "SIZES", bool? args "INTEG", bool? args "IOK", bool? args "CANCEL" with
  | some pre, some tmppre, some fail, some faults, some corrupt, some sizes, some integ, some iok, some cancel =>
    match (if fail == "-" then some none else (parseStep? fail).map some) with
    | none => "bad-op"
    | some failStep =>
      let decoded : Option Unit := if corrupt || faults > maxRetriesConst then none else some ()
      -- SIDE (optional, default 1): did SQLite leave -wal/-shm behind when a *cancelled* check failed
      let side : Bool := match natArg? args "SIDE" with | some 0 => false | _ => true
      let inp : Inputs Unit :=
        { outPre := pre, tmpPre := tmppre, fails := fun s => some s == failStep, decoded := decoded, sizesOk := sizes,
          integrityOn := integ, integrityOk := fun _ => iok, sidecarWal := side, sidecarShm := side, ctxCancelled := cancel, walPre := false, shmPre := false, hotWal := id, decodePanics := false }
      let r := restore inp
      let res := match r.2 with
        | .ok _ => "ok" | .error .outputExists => "exists" | .error (.step s) => fmtStep s | .error .crash => "crash"
      s!"res={res} out={fmtFileSt r.1.out} tmp={fmtFileSt r.1.tmp} wal={if r.1.wal then 1 else 0} shm={if r.1.shm then 1 else 0}"
  | _, _, _, _, _, _, _, _, _ => "bad-op"

def readerHandlers : Handlers := [("reader", handleReader), ("restore", handleRestore)]

end Litestream.Driver
