import Litestream.Model.Fs
import Litestream.Gen.Publish
import Litestream.Driver.Util
/-! Driver handlers for the file-system model (C11, C03).

Line protocol (events separated by `;`, a path is `dir.name.final.tree.min.max`, all decimal):
`C<p>` create, `W<p>` write, `S<p>` fsync, `X<p>` close, `R<p>><p>` rename, `D<dir>` fsync of a
directory, `U<p>` unlink, `T<p>` truncate, `K<n>` success marker of operation n.

* `trace E=<ev;…>`        → `ok` | `bad <rule> <index>`           (the acceptor `flushOK`/`judge`)
* `killok E=<ev;…>`       → `ok` | `bad <rule> <index>`           (the kill-only acceptor `killOK`)
* `crash E=<ev;…> K=<k>`  → `crash partial=<d.n,…> volatile=<d.n,…>` power loss after k calls: final names that
                             may be visible with incomplete content / that are visible now but may vanish
* `kill E=<ev;…> K=<k>`   → `kill partial=<d.n,…> tmp=<n>`        kill after k calls: final names visible
                             with incomplete content; number of staging names left behind
* `protocols`             → `protocols <name>=<wo|bad>:<judge result>,…` for the regenerated Gen.publishProtocols
-/
namespace Litestream.Driver
open Litestream.Fs

def parsePath? (s : String) : Option Path :=
  match natList? s '.' with
  | some [d, n, f, t, lo, hi] => if f ≤ 1 then some ⟨d, n, f == 1, t, lo, hi⟩ else none
  | _ => none

def parseEvent? (s : String) : Option Event :=
  if s.isEmpty then none else
  let op := s.front
  let rest := (s.drop 1).toString
  match op with
  | 'C' => (parsePath? rest).map .create
  | 'W' => (parsePath? rest).map .write
  | 'S' => (parsePath? rest).map .fsync
  | 'X' => (parsePath? rest).map .close
  | 'U' => (parsePath? rest).map .unlink
  | 'T' => (parsePath? rest).map .truncate
  | 'D' => rest.toNat?.map .fsyncDir
  | 'K' => rest.toNat?.map .ok
  | 'R' => match rest.splitOn ">" with
    | [a, b] => do let a ← parsePath? a; let b ← parsePath? b; pure (.rename a b)
    | _ => none
  | _ => none

def parseTrace? (args : List (String × String)) : Option (List Event) :=
  (arg? args "E").bind fun s => (splitList s ';').mapM parseEvent?

def fmtJudge (tr : List Event) : String :=
  match judge tr with
  | .ok _ => "ok"
  | .error (r, i) => s!"bad {r.toString} {i}"

def handleTrace (args : List (String × String)) : String :=
  match parseTrace? args with
  | some tr => fmtJudge tr
  | none => "bad-op"

def killFirstBad : Nat → List Event → Option (Rule × Nat)
  | _, [] => none
  | i, e :: es => match killCheck e with
    | some r => some (r, i)
    | none => killFirstBad (i + 1) es

def handleKillOK (args : List (String × String)) : String :=
  match parseTrace? args with
  | some tr => match killFirstBad 0 tr with
    | none => "ok"
    | some (r, i) => s!"bad {r.toString} {i}"
  | none => "bad-op"

/-- every path an event mentions -/
def Event.paths : Event → List Path
  | .create p | .write p | .fsync p | .close p | .unlink p | .truncate p => [p]
  | .rename a b => [a, b]
  | _ => []

def finalPaths (tr : List Event) : List Path :=
  ((tr.flatMap Event.paths).filter (·.final)).eraseDups

def fmtPaths (ps : List Path) : String :=
  ",".intercalate (ps.map fun p => s!"{p.dir}.{p.name}")

def handleCrash (args : List (String × String)) : String :=
  match parseTrace? args, natArg? args "K" with
  | some tr, some k =>
    let s := run (tr.take k)
    let fin := run tr
    let fps := finalPaths tr
    -- content of inode i may be incomplete after the crash: its flushed version is not the complete one
    let partialP := fps.filter fun p => (s.may p).any fun b => match b with
      | some i => s.synced i != fin.written i
      | none => false
    let volatileP := fps.filter fun p => (s.vol p).isSome && (s.may p).any (·.isNone)
    s!"crash partial={fmtPaths partialP} volatile={fmtPaths volatileP}"
  | _, _ => "bad-op"

def handleKill (args : List (String × String)) : String :=
  match parseTrace? args, natArg? args "K" with
  | some tr, some k =>
    let s := killState tr k
    let fin := run tr
    let fps := finalPaths tr
    let partialP := fps.filter fun p => match s.vol p with
      | some i => s.written i != fin.written i
      | none => false
    let tmps := (((tr.flatMap Event.paths).filter (fun p => !p.final)).eraseDups).filter fun p => (s.vol p).isSome
    s!"kill partial={fmtPaths partialP} tmp={tmps.length}"
  | _, _ => "bad-op"

def handleProtocols (_ : List (String × String)) : String :=
  "protocols " ++ ",".intercalate (Litestream.Gen.publishProtocols.map fun p =>
    let wo := if wellOrderedB p.steps then "wo" else "bad"
    let j := (fmtJudge (traceOf p)).replace " " "@"
    s!"{p.name}={wo}:{j}")

def fsHandlers : Handlers :=
  [("trace", handleTrace), ("killok", handleKillOK), ("crash", handleCrash), ("kill", handleKill), ("protocols", handleProtocols)]

end Litestream.Driver
