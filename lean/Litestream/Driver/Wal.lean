import Litestream.Model.Wal
import Litestream.Driver.Util
/-! Driver handlers for the WAL reader model (C09). Line protocol:

```
hdr     HEX=<bytes>                                  -> ok be=<0|1> ps=<n> salt=<a>:<b> ck=<a>:<b> | err <kind>
wal     OFF=<0|off> SALT=<a>:<b> MAX=<n> HEX=<bytes>  -> ok end=<off> commit=<n> lim=<0|1> m=<pg:off,…> | err <kind>
frames  OFF=<0|off> SALT=<a>:<b> HEX=<bytes>          -> ok stop=<kind> f=<pgno:commit,…> | err <kind>
chunks  MAX=<n> HEX=<bytes>                          -> ok <end>/<commit>/<lim>/<pg:off,…>;… | err <kind>
salts   UNTIL=<a>:<b> HEX=<bytes>                    -> ok s=<a:b,…> (ascending) | err <kind>
recover HEX=<bytes>                                  -> ok mx=<n> end=<off> commit=<n> m=<pg:off,…> | none
cksum   BE=<0|1> S=<a>:<b> HEX=<bytes>               -> <a>:<b>
```
`OFF=0` means `NewWALReader`, any other value `NewWALReaderWithOffset(off, salt)`. -/
namespace Litestream.Driver
open Litestream.Wal

def hexVal (c : Char) : Option Nat :=
  if '0' ≤ c ∧ c ≤ '9' then some (c.toNat - '0'.toNat)
  else if 'a' ≤ c ∧ c ≤ 'f' then some (c.toNat - 'a'.toNat + 10)
  else none

def hexBytes : List Char → List UInt8 → Option (List UInt8)
  | [], acc => some acc.reverse
  | [_], _ => none
  | a :: b :: rest, acc =>
    match hexVal a, hexVal b with
    | some x, some y => hexBytes rest (UInt8.ofNat (x * 16 + y) :: acc)
    | _, _ => none

def hexArg? (args : List (String × String)) : Option Bytes :=
  (arg? args "HEX").bind fun s => hexBytes s.toList []

def ckArg? (args : List (String × String)) (k : String) : Option Ck :=
  match (arg? args k).bind (natList? · ':') with
  | some [a, b] => if a < 4294967296 ∧ b < 4294967296 then some (UInt32.ofNat a, UInt32.ofNat b) else none
  | _ => none

def fmtCk (c : Ck) : String := s!"{c.1.toNat}:{c.2.toNat}"

def sortPairs (l : List (Nat × Nat)) : List (Nat × Nat) :=
  (l.toArray.qsort (fun a b => a.1 < b.1 || (a.1 == b.1 && a.2 < b.2))).toList

def fmtPairs (l : List (Nat × Nat)) : String :=
  ",".intercalate ((sortPairs l).map fun p => s!"{p.1}:{p.2}")

def fmtRes (r : PageMapResult) : String :=
  s!"end={r.end_} commit={r.commit} lim={if r.limited then 1 else 0} m={fmtPairs r.m}"

def openReader (b : Bytes) (off : Nat) (salt : Ck) : Except Err Reader :=
  if off = 0 then newReader b else newReaderAt b off salt

def handleHdr (args : List (String × String)) : String :=
  match hexArg? args with
  | some b =>
    match parseHdr b with
    | .ok h => s!"ok be={if h.be then 1 else 0} ps={h.ps} salt={fmtCk h.salt} ck={fmtCk h.ck}"
    | .error e => "err " ++ e.toString
  | none => "bad-op"

def handleWal (args : List (String × String)) : String :=
  match hexArg? args, natArg? args "OFF", ckArg? args "SALT", natArg? args "MAX" with
  | some b, some off, some salt, some mx =>
    match openReader b off salt with
    | .error e => "err " ++ e.toString
    | .ok r =>
      match pageMap r mx with
      | .error e => "err " ++ e.toString
      | .ok res => "ok " ++ fmtRes res
  | _, _, _, _ => "bad-op"

def handleFrames (args : List (String × String)) : String :=
  match hexArg? args, natArg? args "OFF", ckArg? args "SALT" with
  | some b, some off, some salt =>
    match openReader b off salt with
    | .error e => "err " ++ e.toString
    | .ok r =>
      let (l, e) := framesRead r
      s!"ok stop={e.toString} f=" ++ ",".intercalate (l.map fun p => s!"{p.1}:{p.2}")
  | _, _, _ => "bad-op"

def handleChunks (args : List (String × String)) : String :=
  match hexArg? args, natArg? args "MAX" with
  | some b, some mx =>
    match chunks b mx with
    | .error e => "err " ++ e.toString
    | .ok rs => "ok " ++ ";".intercalate (rs.map fun r =>
        s!"{r.end_}/{r.commit}/{if r.limited then 1 else 0}/{fmtPairs r.m}")
  | _, _ => "bad-op"

def handleSalts (args : List (String × String)) : String :=
  match hexArg? args, ckArg? args "UNTIL" with
  | some b, some u =>
    match newReader b with
    | .error e => "err " ++ e.toString
    | .ok r =>
      let l := (frameSaltsUntil r u).map fun c => (c.1.toNat, c.2.toNat)
      "ok s=" ++ fmtPairs l
  | _, _ => "bad-op"

def handleRecover (args : List (String × String)) : String :=
  match hexArg? args with
  | some b =>
    match recover b with
    | none => "none"
    | some r => s!"ok mx={r.mx} end={r.end_} commit={r.commit} m={fmtPairs r.pages}"
  | none => "bad-op"

def handleCksum (args : List (String × String)) : String :=
  match hexArg? args, natArg? args "BE", ckArg? args "S" with
  | some b, some be, some s => if be > 1 then "bad-op" else fmtCk (cksum (be == 1) s b)
  | _, _, _ => "bad-op"

def walHandlers : Handlers :=
  [("hdr", handleHdr), ("wal", handleWal), ("frames", handleFrames), ("chunks", handleChunks),
   ("salts", handleSalts), ("recover", handleRecover), ("cksum", handleCksum)]

end Litestream.Driver
