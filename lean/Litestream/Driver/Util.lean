/-! Line-protocol helpers shared by all driver handlers. Core Lean only. -/
namespace Litestream.Driver

def splitOn1 (s : String) (sep : Char) : List String := s.splitOn (String.singleton sep)

/-- `KEY=value` arguments of a line as an association list. -/
def parseArgs (toks : List String) : List (String × String) :=
  toks.filterMap fun t =>
    match t.splitOn "=" with
    | k :: rest@(_ :: _) => some (k, "=".intercalate rest)
    | _ => none

def arg? (args : List (String × String)) (k : String) : Option String :=
  (args.find? (fun p => p.1 == k)).map (·.2)

def natArg? (args : List (String × String)) (k : String) : Option Nat :=
  (arg? args k).bind String.toNat?

def splitList (s : String) (sep : Char) : List String :=
  if s.isEmpty then [] else splitOn1 s sep

def natList? (s : String) (sep : Char) : Option (List Nat) :=
  (splitList s sep).mapM String.toNat?

end Litestream.Driver
