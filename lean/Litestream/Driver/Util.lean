/-! Line-protocol helpers shared by all driver handlers. Core Lean only. -/
namespace Litestream.Driver

def splitOn1 (s : String) (sep : Char) : List String := s.splitOn (String.singleton sep)

/-- `KEY=value` arguments of a line as an association list. -/
def parseArgs (toks : List String) : List (String × String) :=
  toks.filterMap fun t =>
    match t.splitOn "=" with
    | k :: rest@(_ :: _) => some (k, "=".intercalate rest)
    | _ => none

def arg? (args : List (String × String)) (k : String) : Option String :=
  (args.find? (fun p => p.1 == k)).map (·.2)

def natArg? (args : List (String × String)) (k : String) : Option Nat :=
  (arg? args k).bind String.toNat?

def splitList (s : String) (sep : Char) : List String :=
  if s.isEmpty then [] else splitOn1 s sep

def natList? (s : String) (sep : Char) : Option (List Nat) :=
  (splitList s sep).mapM String.toNat?

end Litestream.Driver

namespace Litestream.Driver

/-- A handler table maps the first token of a line to a function of its `KEY=value` arguments. -/
abbrev Handlers := List (String × (List (String × String) → String))

def dispatch (hs : Handlers) (line : String) : String :=
  let toks := (line.trimAscii.toString.splitOn " ").filter (· ≠ "")
  match toks with
  | [] => "bad-op"
  | cmd :: rest =>
    match hs.find? (fun h => h.1 == cmd) with
    | some h => h.2 (parseArgs rest)
    | none => "bad-op"

partial def loop (hs : Handlers) (hin hout : IO.FS.Stream) : IO Unit := do
  let line ← hin.getLine
  if line.isEmpty then return ()
  hout.putStrLn (dispatch hs line)
  hout.flush
  loop hs hin hout

/-- `main` of every per-property driver: one operation per input line, one output line each. -/
def runDriver (hs : Handlers) : IO Unit := do
  let hin ← IO.getStdin
  let hout ← IO.getStdout
  loop hs hin hout
  hout.flush

end Litestream.Driver
