import Litestream.Model.Locks
import Litestream.Model.LockProtocols
import Litestream.Gen.Locks
import Litestream.Driver.Util
/-! Driver handlers for C12: judge lock paths (extracted or observed), lock-order edges, exhaustive
    exploration of the interleavings of a few paths. Path syntax: comma-separated events
    `a<id><R|W>` blocking acquire, `c<id><R|W>` context-cancellable blocking acquire, `t…` successful try,
    `f…` failed try / cancelled wait, `r…` release, `w<id>` WaitGroup.Wait, `m<n>` marker, `x<n>`/`k<n>` channel receive/close. -/
namespace Litestream.Driver
open Litestream.Locks

def parseMode? : Char → Option Mode
  | 'R' => some .R | 'W' => some .W | _ => none

def parseEvent? (s : String) : Option Event :=
  match s.toList with
  | [] => none
  | k :: rest =>
    let str := String.ofList rest
    if k == 'w' then str.toNat?.map .wgWait
    else if k == 'm' then str.toNat?.map .mark
    else if k == 'x' then str.toNat?.map .chanRecv
    else if k == 'k' then str.toNat?.map .chanClose
    else
      match rest.reverse with
      | [] => none
      | mc :: digs =>
        match parseMode? mc, (String.ofList digs.reverse).toNat? with
        | some m, some l =>
          if k == 'a' then some (.acq l m false)
          else if k == 'c' then some (.acq l m true)
          else if k == 't' then some (.tryAcq l m)
          else if k == 'f' then some (.tryFail l m)
          else if k == 'r' then some (.rel l m)
          else none
        | _, _ => none

def parsePath? (s : String) : Option Path := (splitList s ',').mapM parseEvent?

def fmtMode : Mode → String
  | .R => "R" | .W => "W"

def fmtEvent : Event → String
  | .acq l m false => s!"a{l}{fmtMode m}"
  | .acq l m true => s!"c{l}{fmtMode m}"
  | .tryAcq l m => s!"t{l}{fmtMode m}"
  | .tryFail l m => s!"f{l}{fmtMode m}"
  | .rel l m => s!"r{l}{fmtMode m}"
  | .wgWait g => s!"w{g}"
  | .mark n => s!"m{n}"
  | .chanRecv c => s!"x{c}"
  | .chanClose c => s!"k{c}"

def fmtPath (p : Path) : String := ",".intercalate (p.map fmtEvent)

def b01 (b : Bool) : String := if b then "1" else "0"

/-- insertion sort + dedupe of strings (canonical output) -/
def sortDedup (l : List String) : List String :=
  let ins (acc : List String) (x : String) : List String :=
    let (lo, hi) := acc.span (· < x)
    match hi with
    | y :: _ => if y == x then acc else lo ++ x :: hi
    | [] => lo ++ [x]
  l.foldl ins []

def fmtEdges (es : List (Nat × Nat × Bool)) : String :=
  ",".intercalate (sortDedup (es.map fun (a, b, blk) => s!"{a}>{b}{if blk then "b" else "t"}"))

def parseGrp? (s : String) : Option (Option Nat) :=
  if s == "-" then some none else s.toNat?.map some

/-- `judge P=<path> G=<group|-> X=<0|1>` — X=1 applies the named exemption (A-init-wait-vacuous) first. -/
def handleJudge (args : List (String × String)) : String :=
  match (arg? args "P").bind parsePath?, (arg? args "G").bind parseGrp?, natArg? args "X" with
  | some p, some g, some x =>
    let base := baseOf daemonRank g
    let q := if x == 1 then dropWaitsUnder 8 5 [] p else p
    let bal := (heldAfter [] q).isSome
    let rk := rankFrom daemonRank base [] q
    let ra := heldAfter [] q == some []
    if bal && rk && ra then "ok" else s!"bad balanced={b01 bal} rank={b01 rk} releases={b01 ra}"
  | _, _, _ => "bad-op"

/-- `edges P=<path>` -/
def handleEdges (args : List (String × String)) : String :=
  match (arg? args "P").bind parsePath? with
  | some p => "edges " ++ fmtEdges (edges p)
  | none => "bad-op"

def genAll : List (String × Option Nat × Path) :=
  Gen.Locks.lockPaths.map (fun (n, p) => (n, none, p)) ++
  Gen.Locks.monitorPaths.map (fun (n, g, p) => (n, some g, p)) ++
  Gen.Locks.spawnedPaths.map (fun (n, p) => (n, none, p))

/-- `ops` — names of the extracted operations with their number of paths -/
def handleOps (_ : List (String × String)) : String :=
  let names := sortDedup (genAll.map (·.1))
  "ops " ++ ",".intercalate (names.map fun n => s!"{n}:{(genAll.filter (·.1 == n)).length}")

/-- `genpath OP=<name> I=<index>` -/
def handleGenPath (args : List (String × String)) : String :=
  match arg? args "OP", natArg? args "I" with
  | some op, some i =>
    match (genAll.filter (·.1 == op))[i]? with
    | some (_, g, p) => s!"path G={match g with | some g => toString g | none => "-"} P={fmtPath p}"
    | none => "bad-op"
  | _, _ => "bad-op"

/-- `genedges OP=<name>` — union of the lock-order edges of all extracted paths of the operation -/
def handleGenEdges (args : List (String × String)) : String :=
  match arg? args "OP" with
  | some op =>
    let ps := genAll.filter (·.1 == op)
    if ps.isEmpty then "bad-op" else "edges " ++ fmtEdges (ps.foldl (fun acc (_, _, p) => acc ++ edges p) [])
  | none => "bad-op"

/-- state of an exploration = remaining lengths; memoised breadth-first search over all interleavings -/
partial def bfs (ts : List Thread) (frontier : List (State × List Nat)) (seen : List (List Nat)) (budget : Nat) : String :=
  match frontier with
  | [] => "none"
  | (s, sched) :: rest =>
    if budget == 0 then "budget"
    else if deadlocked s then "deadlock " ++ ".".intercalate (sched.reverse.map toString)
    else
      let key (s : State) := s.threads.map (·.rest.length)
      let succ := (successors s).filter fun (_, s') => !seen.contains (key s')
      let succ := succ.foldl (fun acc x => if acc.any (fun y => key y.2 == key x.2) then acc else acc ++ [x]) []
      bfs ts (rest ++ succ.map fun (i, s') => (s', i :: sched)) (seen ++ succ.map fun (_, s') => key s') (budget - 1)

/-- `explore T=<path>;<path>;… G=<grp|->,… X=<0|1>` — all interleavings; `none` | `deadlock <thread.thread.…>` | `budget` -/
def handleExplore (args : List (String × String)) : String :=
  match arg? args "T", arg? args "G", natArg? args "X" with
  | some t, some g, some x =>
    let ps := (splitList t ';').mapM parsePath?
    let ps := ps.map fun l => l.map fun p => if x == 1 then dropWaitsUnder 8 5 [] p else p
    let gs := (splitList g ',').mapM parseGrp?
    match ps, gs with
    | some ps, some gs =>
      if ps.length != gs.length || ps.isEmpty then "bad-op"
      else
        let ts := (ps.zip gs).map fun (p, g) => ({ grp := g, rest := p } : Thread)
        bfs ts [(State.init ts, [])] [ts.map (·.rest.length)] 200000
    | _, _ => "bad-op"
  | _, _, _ => "bad-op"

def locksHandlers : Handlers :=
  [("judge", handleJudge), ("edges", handleEdges), ("ops", handleOps), ("genpath", handleGenPath),
   ("genedges", handleGenEdges), ("explore", handleExplore)]

end Litestream.Driver
