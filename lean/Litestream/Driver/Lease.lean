import Litestream.Model.Lease
import Litestream.Driver.Util
/-! Driver handler for the lease model (C20): replays one schedule per line.

`lease N=<clients> L=<d|s|e> INIT=<-|gen:owner:+|-> M=<404|412> P=<prog>;<prog>;… S=<c>,<c>,…`
  L    = owner strings of the instances: d distinct (instance c writes owner c), s all the same (7), e all empty (8, printed `-`)
  prog = ops joined by `.`: `a+`/`a-` acquire with live/born-expired TTL, `r+`/`r-` renew, `x` release (may be empty)
  S    = client performing its next S3 request, in order
Answer: `R=<c>/<request>,… O=<results of client 0>;<client 1>;… H=<holders at the end>`
  request: `get=<wK|->`, `put:inm:g<gen>:<resp>`, `put:im=wK:g<gen>:<resp>`, `del:im=wK:<resp>`, `none`
  (wK = the record written by the K-th successful put; w0 = the pre-seeded record)
The clock ticks by one before every request; live TTL = +10^6, born-expired = −10^6. -/
namespace Litestream.Driver
open Litestream.Lease

structure LOp where
  kind : Nat      -- 0 acquire, 1 renew, 2 release
  ttl : Int

structure LClient where
  ops : List LOp
  ttl : Int := 0
  results : List String := []

structure LState where
  s : State
  cs : List LClient
  writes : List Rec
  m : Missing
  reqs : List String := []

def bigTTL : Int := 1000000

def parseLOp? (t : String) : Option LOp :=
  match t with
  | "a+" => some ⟨0, bigTTL⟩
  | "a-" => some ⟨0, -bigTTL⟩
  | "r+" => some ⟨1, bigTTL⟩
  | "r-" => some ⟨1, -bigTTL⟩
  | "x" => some ⟨2, 0⟩
  | _ => none

def parseProg? (s : String) : Option (List LOp) := (splitList s '.').mapM parseLOp?

def parseInit? (s : String) : Option (Option Rec) :=
  if s == "-" then some none else
  match splitOn1 s ':' with
  | [g, o, sg] =>
    match g.toNat?, o.toNat?, sg with
    | some g, some o, "+" => some (some ⟨g, bigTTL, o⟩)
    | some g, some o, "-" => some (some ⟨g, -bigTTL, o⟩)
    | _, _, _ => none
  | _ => none

def fmtResp : Resp → String
  | .ok => "ok" | .precond => "412" | .notFound => "404"

def fmtW (ws : List Rec) (r : Rec) : String :=
  match ws.findIdx? (· == r) with
  | some i => s!"w{i}"
  | none => "w?"

def fmtReq (ws : List Rec) : ReqOut → String
  | .get none => "get=-"
  | .get (some r) => "get=" ++ fmtW ws r
  | .put .ifNoneMatchStar b resp => s!"put:inm:g{b.gen}:{fmtResp resp}"
  | .put (.ifMatch e) b resp => s!"put:im={fmtW ws e}:g{b.gen}:{fmtResp resp}"
  | .del e resp => s!"del:im={fmtW ws e}:{fmtResp resp}"

/-- label standing for the empty `Owner` string (the error then names no owner) -/
def emptyOwner : Nat := 8

def fmtResult : Result → String
  | .ok l => s!"ok:g{l.body.gen}"
  | .released => "released"
  | .leaseExists none => "exists:-"
  | .leaseExists (some o) => if o == emptyOwner then "exists:-" else s!"exists:{o}"
  | .notHeld => "notheld"
  | .alreadyReleased => "alreadyreleased"
  | .leaseRequired => "required"
  | .otherErr => "err"

def LState.client (d : LState) (c : Nat) : LClient := d.cs.getD c {ops := []}

def LState.setC (d : LState) (c : Nat) (cl : LClient) : LState := { d with cs := d.cs.set c cl }

/-- Apply one model label on behalf of client `c`, recording request and result. -/
def LState.apply (d : LState) (c : Nat) (l : Label) : LState :=
  let (s', out) := step d.s l
  match out with
  | .disabled => { d with reqs := d.reqs ++ [s!"{c}/disabled"] }
  | .did req res =>
    let writes := match req with
      | some (.put _ b .ok) => d.writes ++ [b]
      | _ => d.writes
    let reqs := match req with
      | some r => d.reqs ++ [s!"{c}/" ++ fmtReq writes r]
      | none => d.reqs
    let d := { d with s := s', writes := writes, reqs := reqs }
    match res with
    | some r => let cl := d.client c; d.setC c { cl with results := cl.results ++ [fmtResult r] }
    | none => d

/-- Everything client `c` does without talking to S3: the decision after `readLease`, and
operations refused for lack of a lease. -/
def LState.localSteps (d : LState) (c : Nat) : Nat → LState
  | 0 => d
  | fuel + 1 =>
    let cl := d.client c
    match (d.s.clients c).pc with
    | .got _ => (d.apply c (.acquireDecide c cl.ttl)).localSteps c fuel
    | .idle =>
      match cl.ops with
      | op :: rest =>
        if op.kind != 0 && (d.s.clients c).lease.isNone then
          let d := d.setC c { cl with ops := rest }
          let d := d.apply c (if op.kind == 1 then .renew c op.ttl d.m else .release c d.m)
          d.localSteps c fuel
        else d
      | [] => d
    | _ => d

def LState.tick (d : LState) : LState := { d with s := (step d.s (.tick 1)).1 }

/-- Client `c` performs its next S3 request. -/
def LState.request (d : LState) (c : Nat) : LState :=
  let d := (d.localSteps c 16).tick
  let cl := d.client c
  let d :=
    match (d.s.clients c).pc with
    | .put _ _ => d.apply c (.acquirePut c d.m)
    | .reread => d.apply c (.acquireReread c)
    | .got _ => { d with reqs := d.reqs ++ [s!"{c}/stuck"] }
    | .idle =>
      match cl.ops with
      | [] => { d with reqs := d.reqs ++ [s!"{c}/none"] }
      | op :: rest =>
        let d := d.setC c { cl with ops := rest, ttl := op.ttl }
        match op.kind with
        | 0 => d.apply c (.acquireGet c)
        | 1 => d.apply c (.renew c op.ttl d.m)
        | _ => d.apply c (.release c d.m)
  d.localSteps c 16

def LState.finish (d : LState) (n : Nat) : LState :=
  (List.range n).foldl (fun d c =>
    let d := d.localSteps c 16
    let cl := d.client c
    if cl.ops.isEmpty && (d.s.clients c).pc == .idle then d
    else d.setC c { cl with results := cl.results ++ ["pending"] }) d

/-- `lease N=.. INIT=.. M=.. P=.. S=..` -/
def handleLease (args : List (String × String)) : String :=
  let progs? : Option (List (List LOp)) := (arg? args "P").bind fun p => (splitOn1 p ';').mapM parseProg?
  let m? : Option Missing := match arg? args "M" with
    | some "404" => some .as404 | some "412" => some .as412 | _ => none
  let label? : Option (Nat → Nat) := match arg? args "L" with
    | some "d" => some id | some "s" => some (fun _ => 7) | some "e" => some (fun _ => emptyOwner) | _ => none
  match natArg? args "N", (arg? args "INIT").bind parseInit?, m?, progs?, (arg? args "S").bind (natList? · ','), label? with
  | some n, some init, some m, some progs, some sched, some label =>
    if progs.length != n || sched.any (· ≥ n) then "bad-op" else
    let d0 : LState := { s := initState init label, cs := progs.map fun p => { ops := p },
                         writes := match init with | some r => [r] | none => [⟨0, 0, 0⟩], m := m }
    let d := (sched.foldl (fun d c => d.request c) d0).finish n
    let holders := (List.range n).filter fun c => holdsB d.s c
    let hs := if holders.isEmpty then "-" else ",".intercalate (holders.map toString)
    "R=" ++ ",".intercalate d.reqs ++ " O=" ++ ";".intercalate (d.cs.map fun cl => ",".intercalate cl.results) ++ " H=" ++ hs
  | _, _, _, _, _, _ => "bad-op"

def leaseHandlers : Handlers := [("lease", handleLease)]

end Litestream.Driver
