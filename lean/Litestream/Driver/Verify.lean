import Litestream.Model.Verify
import Litestream.Driver.Util
/-! Driver handler for `verify` (C04). -/
namespace Litestream.Driver
open Litestream.Vf

def parsePair? (s : String) : Option (Nat × Nat) :=
  match natList? s ':' with
  | some [a, b] => some (a, b)
  | _ => none

def parsePFrame? (s : String) : Option PFrame :=
  match natList? s ':' with
  | some [a, b, c] => some ⟨a, b, c⟩
  | _ => none

def b01? (args : List (String × String)) (k : String) : Option Bool :=
  match arg? args k with
  | some "1" => some true
  | some "0" => some false
  | _ => none

/-- `verify POS0= LS= LE= LP=<pg:tok,…> HS= F=<salt:pg:tok,…> STE= FRESH= [UNRES=]` (UNRES absent = 0) -/
def handleVerify (args : List (String × String)) : String :=
  match b01? args "POS0", natArg? args "LS", natArg? args "LE", (arg? args "LP").bind (fun s => (splitList s ',').mapM parsePair?),
        natArg? args "HS", (arg? args "F").bind (fun s => (splitList s ',').mapM parsePFrame?), b01? args "STE", b01? args "FRESH" with
  | some p0, some ls, some le, some lp, some hs, some fr, some ste, some fresh =>
    let unres := (b01? args "UNRES").getD false
    let o := verify ⟨p0, ⟨ls, le, lp⟩, hs, fr, ste, fresh, unres⟩
    let b := fun (x : Bool) => if x then "1" else "0"
    let base := s!"snap={b o.snapshot} idx={o.idx} clear={b o.clearEnd}"
    if o.snapshot then base else base ++ s!" hdr={b o.useHdrSalt}"
  | _, _, _, _, _, _, _, _ => "bad-op"

def verifyHandlers : Handlers := [("verify", handleVerify)]

end Litestream.Driver
