import Litestream.Model.Plan
import Litestream.Model.LtxName
import Litestream.Driver.Util
/-! Driver handlers for the planner (C08, C15). -/
namespace Litestream.Driver
open Litestream

def parseFile? (s : String) : Option FileInfo :=
  match natList? s ':' with
  | some [l, mn, mx, cr] => some ⟨l, mn, mx, cr⟩
  | _ => none

def parseFiles? (s : String) : Option (List FileInfo) :=
  (splitList s ',').mapM parseFile?

def fmtFile (f : FileInfo) : String := s!"{f.level}:{f.min}:{f.max}"

def fmtPlanErr : PlanErr → String
  | .both => "both" | .txNotAvailable => "txnotavailable" | .nonContiguous => "noncontiguous" | .fuel => "fuel"

def parseTarget? (args : List (String × String)) : Option Target := do
  let t ← natArg? args "T"
  let tss ← arg? args "TS"
  let ts ← if tss == "-" then some none else (tss.toNat?).map some
  pure ⟨t, ts⟩

/-- `plan T=<txid> TS=<ms|-> F=<lvl>:<min>:<max>:<created>,…` -/
def handlePlan (args : List (String × String)) : String :=
  match parseTarget? args, (arg? args "F").bind parseFiles? with
  | some tg, some fs =>
    match planFiles fs tg with
    | .ok p => "ok " ++ ",".intercalate (p.map fmtFile)
    | .error e => "err " ++ fmtPlanErr e
  | _, _ => "bad-op"

/-- `chain T=.. TS=.. F=<files> Q=<lvl:min:max:created,…>` — judge an implementation's plan with the spec predicate. -/
def handleChain (args : List (String × String)) : String :=
  match parseTarget? args, (arg? args "F").bind parseFiles?, (arg? args "Q").bind parseFiles? with
  | some tg, some fs, some q => if validChain fs tg q then "valid" else "invalid"
  | _, _, _ => "bad-op"

end Litestream.Driver

namespace Litestream.Driver
/-! LTX names (`Model/LtxName.lean`); names travel as hex of their bytes.
`lparse HEX=<hex>` -> `ok <min>:<max>` | `none`;  `lfmt A=<min> B=<max>` -> the name;
`llist SEEK=<n> N=<hex>,…` -> `<min>:<max>,…` | `-` -/

def lnNib? (c : Char) : Option Nat :=
  if '0' ≤ c ∧ c ≤ '9' then some (c.toNat - 48) else if 'a' ≤ c ∧ c ≤ 'f' then some (c.toNat - 87) else none

def lnUnhex? : List Char → Option (List Char)
  | [] => some []
  | [_] => none
  | a :: b :: rest => do
    let x ← lnNib? a
    let y ← lnNib? b
    let r ← lnUnhex? rest
    pure (Char.ofNat (x * 16 + y) :: r)

def handleLParse (args : List (String × String)) : String :=
  match (arg? args "HEX").bind fun s => lnUnhex? s.toList with
  | some n => match LtxName.parseLtx n with | some (a, b) => s!"ok {a}:{b}" | none => "none"
  | none => "bad-op"

def handleLFmt (args : List (String × String)) : String :=
  match natArg? args "A", natArg? args "B" with
  | some a, some b => if a < 2 ^ 64 ∧ b < 2 ^ 64 then String.ofList (LtxName.fmtLtx a b) else "bad-op"
  | _, _ => "bad-op"

def handleLList (args : List (String × String)) : String :=
  match natArg? args "SEEK", (arg? args "N").bind fun s => (splitList s ',').mapM fun h => lnUnhex? h.toList with
  | some seek, some ns =>
    let out := ",".intercalate ((LtxName.listLtx ns seek).map fun p => s!"{p.1}:{p.2}")
    if out.isEmpty then "-" else out
  | _, _ => "bad-op"

def planHandlers : Handlers :=
  [("plan", handlePlan), ("chain", handleChain), ("lparse", handleLParse), ("lfmt", handleLFmt), ("llist", handleLList)]
end Litestream.Driver
