import Litestream.Model.Plan
import Litestream.Driver.Util
/-! Driver handlers for the planner (C08, C15). -/
namespace Litestream.Driver
open Litestream

def parseFile? (s : String) : Option FileInfo :=
  match natList? s ':' with
  | some [l, mn, mx, cr] => some ⟨l, mn, mx, cr⟩
  | _ => none

def parseFiles? (s : String) : Option (List FileInfo) :=
  (splitList s ',').mapM parseFile?

def fmtFile (f : FileInfo) : String := s!"{f.level}:{f.min}:{f.max}"

def fmtPlanErr : PlanErr → String
  | .both => "both" | .txNotAvailable => "txnotavailable" | .nonContiguous => "noncontiguous" | .fuel => "fuel"

def parseTarget? (args : List (String × String)) : Option Target := do
  let t ← natArg? args "T"
  let tss ← arg? args "TS"
  let ts ← if tss == "-" then some none else (tss.toNat?).map some
  pure ⟨t, ts⟩

/-- `plan T=<txid> TS=<ms|-> F=<lvl>:<min>:<max>:<created>,…` -/
def handlePlan (args : List (String × String)) : String :=
  match parseTarget? args, (arg? args "F").bind parseFiles? with
  | some tg, some fs =>
    match planFiles fs tg with
    | .ok p => "ok " ++ ",".intercalate (p.map fmtFile)
    | .error e => "err " ++ fmtPlanErr e
  | _, _ => "bad-op"

/-- `chain T=.. TS=.. F=<files> Q=<lvl:min:max:created,…>` — judge an implementation's plan with the spec predicate. -/
def handleChain (args : List (String × String)) : String :=
  match parseTarget? args, (arg? args "F").bind parseFiles?, (arg? args "Q").bind parseFiles? with
  | some tg, some fs, some q => if validChain fs tg q then "valid" else "invalid"
  | _, _, _ => "bad-op"

end Litestream.Driver

namespace Litestream.Driver
def planHandlers : Handlers := [("plan", handlePlan), ("chain", handleChain)]
end Litestream.Driver
