import Litestream.Model.Checkpoint
import Litestream.Driver.Util
/-! Driver handlers for the checkpoint policy (C13). -/
namespace Litestream.Driver
open Litestream.Ck

def parseOutcome? (s : String) : Option Outcome :=
  match s.splitOn ":" with
  | ["restarted", n] => n.toNat?.map Outcome.restarted
  | ["notrestarted"] => some .notRestarted
  | ["busy"] => some .busy
  | ["skipped"] => some .skipped
  | _ => none

def fmtMode : Mode → String
  | .passive => "PASSIVE" | .truncate => "TRUNCATE"

def boolArg? (args : List (String × String)) (k : String) : Option Bool :=
  match arg? args k with
  | some "1" => some true
  | some "0" => some false
  | _ => none

/-- `ck PS= MIN= TRUNC= IVL= LS= TPF= SSC= ORIG= NEW= AGE= O1= O2=` → attempted modes. -/
def handleCk (args : List (String × String)) : String :=
  match natArg? args "PS", natArg? args "MIN", natArg? args "TRUNC", natArg? args "IVL", natArg? args "LS",
        boolArg? args "TPF", boolArg? args "SSC", natArg? args "ORIG", natArg? args "NEW", boolArg? args "AGE",
        (arg? args "O1").bind parseOutcome?, (arg? args "O2").bind parseOutcome? with
  | some ps, some mn, some tr, some ivl, some ls, some tpf, some ssc, some orig, some new, some age, some o1, some o2 =>
    let ms := attempts ⟨ps, mn, tr, ivl⟩ ⟨ls, tpf, ssc⟩ ⟨orig, new, age⟩ o1 o2
    if ms.isEmpty then "-" else ",".intercalate (ms.map fmtMode)
  | _, _, _, _, _, _, _, _, _, _, _, _ => "bad-op"

/-- `idle PS= MIN= TRUNC= FRAMES= FILES= K=` → files after each of K idle syncs. -/
def handleIdle (args : List (String × String)) : String :=
  match natArg? args "PS", natArg? args "MIN", natArg? args "TRUNC", natArg? args "FRAMES", natArg? args "FILES", natArg? args "K" with
  | some ps, some mn, some tr, some fr, some fl, some k =>
    let c : Cfg := ⟨ps, mn, tr, 0⟩
    let counts := (List.range k).map (fun j => (idleIter c (j + 1) ⟨fr, fl, false⟩).files)
    ",".intercalate (counts.map toString)
  | _, _, _, _, _, _ => "bad-op"

def ckHandlers : Handlers := [("ck", handleCk), ("idle", handleIdle)]

end Litestream.Driver
