import Litestream.Model.Sql
import Litestream.Driver.Util
/-! Driver handler for C14: classify a statement (whitespace-normalised, spaces as `_`). -/
namespace Litestream.Driver
open Litestream.Sq

def handleSql (args : List (String × String)) : String :=
  match arg? args "S" with
  | some s =>
    match classify (s.replace "_SP_" " ") with
    | some c => "allowed " ++ toString (repr c)
    | none => "not-allowed"
  | none => "bad-op"

def sqlHandlers : Handlers := [("sql", handleSql)]
end Litestream.Driver
