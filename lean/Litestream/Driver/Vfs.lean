import Litestream.Model.Vfs
import Litestream.Driver.Util
/-! Driver handlers for the VFS read replica (C18). Stateless: every line carries the model state.

  R=<lvl>:<min>:<max>:<commit>:<pg>.<pg>…;…     the replica files with their page numbers
  S=<pos>:<maxTx1>:<commit>:<locked 0|1>:<pendingReplace 0|1>:<target 0|1>
  IDX=<pg>=<tok>,…   PEND=<pg>=<tok>,…          token = lvl*10^12 + min*10^6 + max of the file
-/
namespace Litestream.Driver
open Litestream Litestream.Follow Litestream.Vfs

def fileTok (l mn mx : Nat) : Nat := l * 1000000000000 + mn * 1000000 + mx

def parseRFile? (s : String) : Option RFile :=
  match splitOn1 s ':' with
  | [l, mn, mx, c, pgs] => do
    let l ← l.toNat?; let mn ← mn.toNat?; let mx ← mx.toNat?; let c ← c.toNat?
    let ps ← natList? pgs '.'
    pure ⟨⟨l, mn, mx, 0⟩, ⟨c, ps.map (fun p => (p, fileTok l mn mx))⟩⟩
  | _ => none

def parseReplica? (s : String) : Option Replica := (splitList s ';').mapM parseRFile?

def parseIndex? (s : String) : Option Index :=
  (splitList s ',').mapM fun e =>
    match splitOn1 e '=' with
    | [p, t] => do let p ← p.toNat?; let t ← t.toNat?; pure (p, t)
    | _ => none

def b01 (b : Bool) : String := if b then "1" else "0"
def parse01? (s : String) : Option Bool := if s == "1" then some true else if s == "0" then some false else none

/-- Canonical index: first entry per page, ascending page order. -/
def canonIndex (i : Index) : List (Nat × Tok) :=
  let ps := (i.map (·.1)).eraseDups
  let sorted := ps.foldr (fun p acc => (acc.filter (· < p)) ++ [p] ++ (acc.filter (· > p))) []
  sorted.filterMap (fun p => (i.get p).map (fun t => (p, t)))

def fmtIndex (i : Index) : String := ",".intercalate ((canonIndex i).map (fun e => s!"{e.1}={e.2}"))

def fmtVfs (v : Vfs) : String :=
  s!"S={v.pos}:{v.maxTx1}:{v.commit}:{b01 v.locked}:{b01 v.pendingReplace}:{b01 v.target} SIZE={fileSize v} IDX={fmtIndex v.index} PEND={fmtIndex v.pending}"

def parseVfs? (args : List (String × String)) : Option Vfs := do
  let s ← arg? args "S"
  let idx ← (arg? args "IDX").bind parseIndex?
  let pend ← (arg? args "PEND").bind parseIndex?
  match splitOn1 s ':' with
  | [pos, m1, c, lk, pr, tg] =>
    pure ⟨← pos.toNat?, ← m1.toNat?, idx, pend, ← parse01? pr, ← c.toNat?, ← parse01? lk, ← parse01? tg⟩
  | _ => none

def parsePlan? (r : Replica) (s : String) : Option (List RFile) :=
  (splitList s ',').mapM fun e =>
    match natList? e ':' with
    | some [l, mn, mx] => fileOf r ⟨l, mn, mx, 0⟩
    | _ => none

/-- `vopen PLAN=<l:min:max,…> R=…` — `Open` / `rebuildIndex` on a restore plan. `TT=1` = time travel. -/
def handleVOpen (args : List (String × String)) : String :=
  match (arg? args "R").bind parseReplica? with
  | some r =>
    match (arg? args "PLAN").bind (parsePlan? r), (arg? args "TT").bind parse01? with
    | some plan, some tt => "ok " ++ fmtVfs (rebuild Vfs.init plan tt)
    | _, _ => "bad-op"
  | none => "bad-op"

/-- `vpoll S= IDX= PEND= R=` — one `pollReplicaClient`. -/
def handleVPoll (args : List (String × String)) : String :=
  match parseVfs? args, (arg? args "R").bind parseReplica? with
  | some v, some r =>
    match pollReplica r v with
    | .ok v' => "ok " ++ fmtVfs v'
    | .error .nonContiguous => "err noncontiguous " ++ fmtVfs v
  | _, _ => "bad-op"

def handleVLock (args : List (String × String)) : String :=
  match parseVfs? args with
  | some v => "ok " ++ fmtVfs (lock v)
  | none => "bad-op"

def handleVUnlock (args : List (String × String)) : String :=
  match parseVfs? args with
  | some v => "ok " ++ fmtVfs (unlock v)
  | none => "bad-op"

def vfsHandlers : Handlers :=
  [("vopen", handleVOpen), ("vpoll", handleVPoll), ("vlock", handleVLock), ("vunlock", handleVUnlock)]

end Litestream.Driver
