import Litestream.Model.Retention
import Litestream.Driver.Plan
/-! Driver handlers for retention (C07).  Times in ms; `THR` is the threshold
    (`now - retention`) the real call used.  Output: deleted files and surviving
    listing, both sorted by (level,min,max). -/
namespace Litestream.Driver
open Litestream

def fmtFiles (fs : List FileInfo) : String := ",".intercalate ((sortFiles fs).map fmtFile)

def fmtOut (o : RetOut) : String :=
  s!"ok floor={o.floor} del={fmtFiles o.deleted} keep={fmtFiles o.replica}"

/-- A directory cannot hold two files with the same (level,min,max). -/
def dupKeys : List FileInfo → Bool
  | [] => false
  | f :: fs => fs.any (sameKey f) || dupKeys fs

def filesArg? (args : List (String × String)) (k : String) : Option (List FileInfo) :=
  match (arg? args k).bind parseFiles? with
  | some fs => if dupKeys fs then none else some fs
  | none => none

/-- `snapret V=db|compactor THR=<ms> F=…` -/
def handleSnapRet (args : List (String × String)) : String :=
  match arg? args "V", natArg? args "THR", filesArg? args "F" with
  | some "db", some thr, some fs => fmtOut (snapRetDB thr fs)
  | some "compactor", some thr, some fs => fmtOut (snapRetCompactor thr fs)
  | _, _, _ => "bad-op"

/-- `txidret L=<level> TX=<txid> F=…` -/
def handleTxidRet (args : List (String × String)) : String :=
  match natArg? args "L", natArg? args "TX", filesArg? args "F" with
  | some l, some tx, some fs => if l ≤ snapshotLevel then fmtOut (txidRet l tx fs) else "bad-op"
  | _, _, _ => "bad-op"

/-- `l0ret EN=0|1 THR=<ms> F=…` (`EN=0`: L0Retention <= 0) -/
def handleL0Ret (args : List (String × String)) : String :=
  match natArg? args "EN", natArg? args "THR", filesArg? args "F" with
  | some en, some thr, some fs => if en ≤ 1 then fmtOut (l0Ret (en == 1) thr fs) else "bad-op"
  | _, _, _ => "bad-op"

/-- `cascade V=db|compactor THR=<ms> LV=<maxLevel> F=…` -/
def handleCascade (args : List (String × String)) : String :=
  match arg? args "V", natArg? args "THR", natArg? args "LV", filesArg? args "F" with
  | some "db", some thr, some k, some fs => if k < snapshotLevel then fmtOut (cascade thr k fs) else "bad-op"
  | some "compactor", some thr, some k, some fs =>
    if k < snapshotLevel then fmtOut (cascadeCompactor thr k fs) else "bad-op"
  | _, _, _, _ => "bad-op"

/-- `rep OP=snapret|l0ret|cascade EN=0|1 THR=.. LV=.. F=<remote> LOC=<local>` →
    remote and local listings after the call with `RetentionEnabled = EN`. -/
def handleRep (args : List (String × String)) : String :=
  match arg? args "OP", natArg? args "EN", natArg? args "THR", natArg? args "LV", filesArg? args "F", filesArg? args "LOC" with
  | some op, some en, some thr, some k, some fs, some loc =>
    if en > 1 || k ≥ snapshotLevel then "bad-op" else
    let s : Rep := ⟨fs, loc⟩
    let r? : Option Rep :=
      if op == "snapret" then some (s.retain (en == 1) (snapRetDB thr))
      else if op == "l0ret" then some (s.retain (en == 1) (l0Ret true thr))
      else if op == "cascade" then some (s.cascade (en == 1) thr k)
      else none
    match r? with
    | some r => s!"ok remote={fmtFiles r.remote} local={fmtFiles r.loc}"
    | none => "bad-op"
  | _, _, _, _, _, _ => "bad-op"

/-- `inv F=…` → the replica invariants the C07 theorems assume, evaluated on a listing. -/
def handleInv (args : List (String × String)) : String :=
  match filesArg? args "F" with
  | some fs =>
    let b (x : Bool) := if x then "1" else "0"
    s!"ok wf={b (filesWFB fs)} covered={b (coveredB fs)} l0adj={b (adjacent (listLevel fs 0))} maxl1={maxL1 fs} snapmax={snapMax fs}"
  | none => "bad-op"

/-- `addok N=<latest> G=<file> F=…` → does the new file `G` satisfy the growth side condition of `retention_seq`? -/
def handleAddOK (args : List (String × String)) : String :=
  match natArg? args "N", (arg? args "G").bind parseFile?, filesArg? args "F" with
  | some n, some g, some fs => if addOKB g fs n then "ok 1" else "ok 0"
  | _, _, _ => "bad-op"

def retentionHandlers : Handlers :=
  [("snapret", handleSnapRet), ("txidret", handleTxidRet), ("l0ret", handleL0Ret),
   ("cascade", handleCascade), ("rep", handleRep), ("inv", handleInv), ("addok", handleAddOK)] ++ planHandlers

end Litestream.Driver
