import Litestream.Driver.Checkpoint
/-! Line-protocol driver for C13 (checkpoint policy). -/
def main : IO Unit := Litestream.Driver.runDriver Litestream.Driver.ckHandlers
