import Litestream.Driver.Follow
/-! Line-protocol driver for C16 (follow-mode restore). -/
def main : IO Unit := Litestream.Driver.runDriver Litestream.Driver.followHandlers
