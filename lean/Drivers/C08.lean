import Litestream.Driver.Plan
/-! Line-protocol driver for C08 (planner). -/
def main : IO Unit := Litestream.Driver.runDriver Litestream.Driver.planHandlers
