import Litestream.Driver.Lease
/-! Line-protocol driver for C20 (lease). -/
def main : IO Unit := Litestream.Driver.runDriver Litestream.Driver.leaseHandlers
