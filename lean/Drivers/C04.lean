import Litestream.Driver.Verify
/-! Line-protocol driver for C04 (verify decision). -/
def main : IO Unit := Litestream.Driver.runDriver Litestream.Driver.verifyHandlers
