import Litestream.Driver.Sql
/-! Line-protocol driver for C14. -/
def main : IO Unit := Litestream.Driver.runDriver Litestream.Driver.sqlHandlers
