import Litestream.Driver.Ltx
/-! Line-protocol driver for C06 (compaction) and C17 (lock page). -/
def main : IO Unit := Litestream.Driver.runDriver Litestream.Driver.ltxHandlers
