import Litestream.Driver.Retention
/-! Line-protocol driver for C07 (retention; also answers the planner ops). -/
def main : IO Unit := Litestream.Driver.runDriver Litestream.Driver.retentionHandlers
