import Litestream.Driver.Fs
/-! Line-protocol driver for C11 / C03 (file-system model). -/
def main : IO Unit := Litestream.Driver.runDriver Litestream.Driver.fsHandlers
