import Litestream.Driver.Locks
/-! Line-protocol driver for C12 (lock paths, traces, interleavings). -/
def main : IO Unit := Litestream.Driver.runDriver Litestream.Driver.locksHandlers
