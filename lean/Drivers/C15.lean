import Litestream.Driver.Timestamps
/-! Line-protocol driver for C15 (timestamp restore). -/
def main : IO Unit := Litestream.Driver.runDriver Litestream.Driver.timestampHandlers
