import Litestream.Driver.Vfs
/-! Line-protocol driver for C18 (VFS read replica). -/
def main : IO Unit := Litestream.Driver.runDriver Litestream.Driver.vfsHandlers
