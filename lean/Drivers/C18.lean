import Litestream.Driver.Util
/-! Line-protocol driver for C18 (VFS read replica). Handlers are added in Driver/Vfs.lean. -/
def main : IO Unit := Litestream.Driver.runDriver []
