import Litestream.Driver.ReplicaSync
/-! Line-protocol driver for C05 (replica upload loop under storage faults). -/
def main : IO Unit := Litestream.Driver.runDriver Litestream.Driver.replicaSyncHandlers
