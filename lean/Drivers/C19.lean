import Litestream.Driver.V3
/-! Line-protocol driver for C19 (legacy 0.3.x restore). -/
def main : IO Unit := Litestream.Driver.runDriver Litestream.Driver.v3Handlers
