import Litestream.Driver.Util
/-! Line-protocol driver for C19 (legacy v3 restore). Placeholder until Driver/V3.lean lands. -/
def main : IO Unit := Litestream.Driver.runDriver []
