import Litestream.Driver.Sync
/-! Line-protocol driver for C01/C02 (page-level sync model). -/
def main : IO Unit := Litestream.Driver.runDriver Litestream.Driver.syncHandlers
