import Litestream.Driver.Wal
/-! Line-protocol driver for C09 (WAL reader). -/
def main : IO Unit := Litestream.Driver.runDriver Litestream.Driver.walHandlers
