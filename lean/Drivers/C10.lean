import Litestream.Driver.Reader
/-! Line-protocol driver for C10 (resumable reader, restore output protocol). -/
def main : IO Unit := Litestream.Driver.runDriver Litestream.Driver.readerHandlers
