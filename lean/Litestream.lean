import Litestream.Model.Plan
