import Litestream.Model.Plan
import Litestream.Props.C08
import Litestream.Audit
